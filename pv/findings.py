"""known_findings.json: committed, read-only at run time (DESIGN 2.6).

Format:
{"findings": [
   {"id": "F01", "status": "open" | "fixed", "title": "...", "commit": "<sha, fixed only>",
    "entries": [ {"property": "C15", "sig": "<structural signature>", "what": "...",
                  "pinned": <case accepted by pv.props.cNN.replay> } ] } ]}

`open` entries: discrepancies with that signature are counted as excluded and the search
continues; the pinned input is re-run at the end and printed as KNOWN-FINDING if it still fails.
`fixed` entries suppress nothing: the pinned input is replayed and any discrepancy is a VIOLATION.
"""
from __future__ import annotations

import json
import os
from typing import Any, Dict, List

from .core import HOME

_cache: Dict[str, Any] = {}


def load() -> List[Dict[str, Any]]:
    if "f" not in _cache:
        p = os.path.join(HOME, "known_findings.json")
        if os.path.exists(p):
            with open(p) as fh:
                _cache["f"] = json.load(fh).get("findings", [])
        else:
            _cache["f"] = []
    return _cache["f"]


def entries(prop: str, status: str) -> List[Dict[str, Any]]:
    out = []
    for f in load():
        if f.get("status") != status:
            continue
        for e in f.get("entries", []):
            if e.get("property") == prop:
                d = dict(e)
                d["finding"] = f["id"]
                d["title"] = f.get("title", "")
                d["commit"] = f.get("commit")
                out.append(d)
    return out


def is_open(prop: str, sig: str) -> bool:
    key = ("open", prop)
    if key not in _cache:
        _cache[key] = {e["sig"] for e in entries(prop, "open")}
    return sig in _cache[key]
