"""G-RUN: runnable, acyclic multi-package projects for the CPython differentials (C04, C03).

Modules are listed in an import-safe order: a module may only import modules that come earlier and that are not its own
descendants, so importing any module executes only complete modules.  Every class/function carries `ID:<n>` in its
docstring and every variable a unique integer value, so identity can be compared without relying on names.
"""
from __future__ import annotations

from typing import Any, Dict, List, Optional, Tuple

from hypothesis import strategies as st

LAYOUTS = [
    ['rp', 'rp.a', 'rp.sub', 'rp.sub.b', 'rq', 'rq.x'],
    ['rp', 'rp.a', 'rp.b', 'rp.sub', 'rp.sub.c', 'rp.sub.deep', 'rp.sub.deep.d', 'rq', 'rq.x'],
    ['rp', 'rp.sub', 'rp.sub.deep', 'rp.sub.deep.d', 'rp.sub.e', 'rp.z', 'rq', 'rq.sub', 'rq.sub.y'],
    ['rp', 'rp.a', 'rq', 'rq.x', 'rq.y'],
]


def is_pkg(layout: List[str], m: str) -> bool:
    return any(x.startswith(m + '.') for x in layout)


def package_of(layout: List[str], m: str) -> str:
    return m if is_pkg(layout, m) else m.rsplit('.', 1)[0]


def relative(layout: List[str], src: str, tgt: str) -> Optional[Tuple[int, str]]:
    """(level, remainder) such that `from <dots><remainder> import` in src names module tgt, if expressible."""
    pkg = package_of(layout, src).split('.')
    t = tgt.split('.')
    common = 0
    while common < len(pkg) and common < len(t) and pkg[common] == t[common]:
        common += 1
    if common == 0:
        return None
    level = len(pkg) - common + 1
    return level, '.'.join(t[common:])


@st.composite
def projects(draw: Any, with_star: bool = True, with_class_imports: bool = True) -> Dict[str, Any]:
    layout = draw(st.sampled_from(LAYOUTS))
    nid = [0]

    def nxt() -> int:
        nid[0] += 1
        return nid[0]
    mods: List[Dict[str, Any]] = []
    public: Dict[str, List[Tuple[str, str]]] = {}   # module -> [(name, kind)] names importable from it (own defs + re-imported names: chains)
    own_defs: Dict[str, List[str]] = {}
    must: Dict[str, List[str]] = {}
    must_star: Dict[str, List[str]] = {}
    pending_must: List[Tuple[str, str, str]] = []   # (module, alias, target module): resolved once the target's definitions are known
    for mi, m in enumerate(layout):
        body: List[Dict[str, Any]] = []
        earlier = [x for x in layout[:mi] if not x.startswith(m + '.')]
        # a module that a package imports at the end of its __init__ runs while that package is still being initialised: it does
        # not import the package (what the package's attributes are at that moment is a matter of timing)
        initialising = {pkg for pkg, _al, tgt in pending_must if m == tgt or m.startswith(tgt + '.')}
        earlier = [x for x in earlier if x not in initialising]
        names_here: List[Tuple[str, str]] = []
        class_aliases: List[str] = []
        mod_alias_target: Dict[str, str] = {}
        star_names: set = set()   # names a star import of this module may (re)bind: a second, implicit binding
        # imports
        for _ in range(draw(st.integers(0, 4)) if earlier else 0):
            tgt = draw(st.sampled_from(earlier))
            form = draw(st.sampled_from(['import', 'import-as', 'from-mod', 'from-mod-as', 'from-name', 'from-name-as', 'rel-mod', 'rel-name', 'rel-name-as'] + (['star'] if with_star else [])))
            i = nxt()
            if form == 'import':
                body.append({'k': 'import', 'text': 'import %s' % tgt})
                names_here.append((tgt.split('.')[0], 'module'))
            elif form == 'import-as':
                body.append({'k': 'import', 'text': 'import %s as m%d' % (tgt, i)})
                names_here.append(('m%d' % i, 'module'))
                mod_alias_target['m%d' % i] = tgt
                must.setdefault(m, []).extend('m%d.%s' % (i, x) for x in own_defs.get(tgt, []))
            elif form in ('from-mod', 'from-mod-as') and '.' in tgt:
                par, leaf = tgt.rsplit('.', 1)
                alias = 'mm%d' % i if form == 'from-mod-as' else leaf
                body.append({'k': 'import', 'text': 'from %s import %s%s' % (par, leaf, ' as ' + alias if alias != leaf else '')})
                names_here.append((alias, 'module'))
                if alias != leaf:
                    mod_alias_target[alias] = tgt
                must.setdefault(m, []).extend('%s.%s' % (alias, x) for x in own_defs.get(tgt, []))
            elif form in ('from-name', 'from-name-as') and public.get(tgt):
                nm, kind = draw(st.sampled_from(public[tgt]))
                alias = 'n%d' % i if form == 'from-name-as' else nm
                body.append({'k': 'import', 'text': 'from %s import %s%s' % (tgt, nm, ' as ' + alias if alias != nm else '')})
                names_here.append((alias, kind))
                if nm in own_defs.get(tgt, []):
                    must.setdefault(m, []).append(alias)
            elif form == 'rel-mod':
                r = relative(layout, m, tgt)
                if r and r[1]:
                    level, rem = r
                    if '.' in rem:
                        par, leaf = rem.rsplit('.', 1)
                        body.append({'k': 'import', 'text': 'from %s%s import %s as rm%d' % ('.' * level, par, leaf, i)})
                    else:
                        body.append({'k': 'import', 'text': 'from %s import %s as rm%d' % ('.' * level, rem, i)})
                    names_here.append(('rm%d' % i, 'module'))
                    must.setdefault(m, []).extend('rm%d.%s' % (i, x) for x in own_defs.get(tgt, []))
            elif form in ('rel-name', 'rel-name-as') and public.get(tgt):
                r = relative(layout, m, tgt)
                if r:
                    level, rem = r
                    nm, kind = draw(st.sampled_from(public[tgt]))
                    alias = 'rn%d' % i if form == 'rel-name-as' else nm
                    body.append({'k': 'import', 'text': 'from %s%s import %s%s' % ('.' * level, rem, nm, ' as ' + alias if alias != nm else '')})
                    names_here.append((alias, kind))
                    if nm in own_defs.get(tgt, []):
                        must.setdefault(m, []).append(alias)
            elif form == 'star' and public.get(tgt) and not m.startswith(tgt + '.'):
                # not from an ancestor package: which of its submodules are bound there at that moment (never the importing
                # module itself) depends on import timing, not on the source
                body.append({'k': 'import', 'text': 'from %s import *' % tgt})
                star_names.update(n for n, _k in public.get(tgt, []))
        # definitions
        for _ in range(draw(st.integers(1, 3))):
            kind = draw(st.sampled_from(['class', 'class', 'func', 'var']))
            i = nxt()
            if kind == 'class':
                d: Dict[str, Any] = {'k': 'class', 'name': 'C%d' % i, 'id': i, 'method': nxt(), 'nested': nxt() if draw(st.booleans()) else None, 'cimports': []}
                if with_class_imports and earlier and draw(st.integers(0, 2)) == 0:
                    tgt = draw(st.sampled_from(earlier))
                    j = nxt()
                    r = relative(layout, m, tgt)
                    use_rel = r is not None and draw(st.booleans())
                    # the alias bound in the class body is sometimes a name that the module (or an earlier class of the module)
                    # binds to something else: each scope must keep its own binding
                    reuse = [n for n, k in names_here if n[:1] in 'mnr' and n[1:2] != 'p' and '.' not in n and n[-1:].isdigit()] + class_aliases
                    forced = draw(st.sampled_from(reuse)) if reuse and draw(st.booleans()) else None
                    if public.get(tgt) and draw(st.booleans()):
                        nm, kd = draw(st.sampled_from(public[tgt]))
                        al = forced or 'ci%d' % j
                        if use_rel:
                            d['cimports'].append({'text': 'from %s%s import %s as %s' % ('.' * r[0], r[1], nm, al), 'name': al})
                        else:
                            d['cimports'].append({'text': 'from %s import %s as %s' % (tgt, nm, al), 'name': al})
                        if nm in own_defs.get(tgt, []):
                            d['cmust'] = d.get('cmust', []) + [al]
                    elif use_rel and r[1]:
                        level, rem = r
                        al = forced or 'cm%d' % j
                        if '.' in rem:
                            par, leaf = rem.rsplit('.', 1)
                            d['cimports'].append({'text': 'from %s%s import %s as %s' % ('.' * level, par, leaf, al), 'name': al})
                        else:
                            d['cimports'].append({'text': 'from %s import %s as %s' % ('.' * level, rem, al), 'name': al})
                        d['cmust'] = d.get('cmust', []) + ['%s.%s' % (al, x) for x in own_defs.get(tgt, [])]
                    else:
                        al = forced or 'cm%d' % j
                        d['cimports'].append({'text': 'import %s as %s' % (tgt, al), 'name': al})
                        d['cmust'] = d.get('cmust', []) + ['%s.%s' % (al, x) for x in own_defs.get(tgt, [])]
                    class_aliases.append(al)
                # imports in the body of the class nested in it (relative ones count their level from the module's package, however
                # deep the class is)
                d['nimports'] = []
                if with_class_imports and d['nested'] and earlier and draw(st.integers(0, 1)) == 0:
                    tgt = draw(st.sampled_from(earlier))
                    j = nxt()
                    r = relative(layout, m, tgt)
                    if r is not None and public.get(tgt) and draw(st.booleans()):
                        nm, _kd = draw(st.sampled_from(public[tgt]))
                        d['nimports'].append({'text': 'from %s%s import %s as ni%d' % ('.' * r[0], r[1], nm, j), 'name': 'ni%d' % j})
                        if nm in own_defs.get(tgt, []):
                            d['nmust'] = ['ni%d' % j]
                    elif r is not None and r[1]:
                        level, rem = r
                        par, _, leaf = rem.rpartition('.')
                        d['nimports'].append({'text': 'from %s%s import %s as nm%d' % ('.' * level, par, leaf, j), 'name': 'nm%d' % j})
                        d['nmust'] = ['nm%d.%s' % (j, x) for x in own_defs.get(tgt, [])]
                    else:
                        d['nimports'].append({'text': 'import %s as nm%d' % (tgt, j), 'name': 'nm%d' % j})
                        d['nmust'] = ['nm%d.%s' % (j, x) for x in own_defs.get(tgt, [])]
                body.append(d)
                names_here.append((d['name'], 'class'))
            elif kind == 'func':
                body.append({'k': 'func', 'name': 'f%d' % i, 'id': i})
                names_here.append(('f%d' % i, 'func'))
            else:
                body.append({'k': 'var', 'name': 'v%d' % i, 'value': 1000 + i})
                names_here.append(('v%d' % i, 'var'))
        # alias assignments
        for _ in range(draw(st.integers(0, 2))):
            cands = [n for n, k in names_here if k in ('class', 'func', 'var', 'alias')]
            mods_al = [n for n, k in names_here if k == 'module' and '.' not in n]
            i = nxt()
            if cands and draw(st.booleans()):
                src = draw(st.sampled_from(cands))
                body.append({'k': 'alias', 'name': 'al%d' % i, 'expr': src})
                names_here.append(('al%d' % i, 'alias'))
            elif mod_alias_target and draw(st.booleans()):
                # an alias of something reached through a module alias (which may itself be an alias there)
                ma = draw(st.sampled_from(sorted(mod_alias_target)))
                if public.get(mod_alias_target[ma]):
                    nm, _kd = draw(st.sampled_from(public[mod_alias_target[ma]]))
                    body.append({'k': 'alias', 'name': 'al%d' % i, 'expr': '%s.%s' % (ma, nm)})
                    names_here.append(('al%d' % i, 'alias'))
        # a package may import its own submodules at the end of its __init__ (everything it defines exists by then, so a submodule
        # that imports names from the package still works), with or without an alias
        if is_pkg(layout, m) and draw(st.booleans()) and not any(b['k'] == 'import' and b['text'].endswith('import *') for b in body):
            # (not after a star import: it may already have bound the submodule's name to another module)
            subs = [x for x in layout if x.startswith(m + '.')]
            for _ in range(draw(st.integers(1, 2))):
                tgt = draw(st.sampled_from(subs))
                i = nxt()
                rem = tgt[len(m) + 1:]
                form = draw(st.sampled_from(['rel-as', 'rel-as', 'rel', 'abs-as', 'import-as']))
                par, _, leaf = rem.rpartition('.')
                if any(n == rem.split('.')[0] for n, _k in names_here):
                    continue  # the package already binds that name to something else ("each name bound once per scope")
                if form == 'rel-as':
                    body.append({'k': 'import', 'text': 'from .%s import %s as t%d' % (par, leaf, i)})
                    alias = 't%d' % i
                elif form == 'rel':
                    body.append({'k': 'import', 'text': 'from .%s import %s' % (par, leaf)})
                    alias = leaf
                elif form == 'abs-as':
                    body.append({'k': 'import', 'text': 'from %s import %s as t%d' % (m + ('.' + par if par else ''), leaf, i)})
                    alias = 't%d' % i
                else:
                    body.append({'k': 'import', 'text': 'import %s as t%d' % (tgt, i)})
                    alias = 't%d' % i
                names_here.append((alias, 'module'))
                pending_must.append((m, alias, tgt))
        has_all = draw(st.integers(0, 3)) == 0
        own = [b['name'] for b in body if b['k'] in ('class', 'func', 'var')]
        allv = None
        if has_all and own:
            # (an empty __all__ is a list too: a star import of the module then binds nothing)
            allv = draw(st.lists(st.sampled_from(own), min_size=0 if draw(st.integers(0, 2)) == 0 else 1, max_size=len(own), unique=True))
        mods.append({'name': m, 'is_pkg': is_pkg(layout, m), 'body': body, 'all': allv})
        own_defs[m] = own
        # later defined names shadow imported ones of the same name: only names bound once are importable / required
        counts: Dict[str, int] = {}
        for n, _k in names_here:
            counts[n] = counts.get(n, 0) + 1
        public[m] = [(n, k) for n, k in names_here if k != 'module' and counts[n] == 1]
        once = [x for x in must.get(m, []) if counts.get(x.split('.')[0], 0) == 1]
        must[m] = [x for x in once if x.split('.')[0] not in star_names]
        # also bound (to the same object) by a star import of a module that re-imports it: must resolve too, but pydoctor does
        # not follow the chain of aliases this leaves in its import map (the root cause of finding F31)
        must_star[m] = [x for x in once if x.split('.')[0] in star_names]
        for b in body:
            if b['k'] == 'class' and b.get('cmust'):
                must[m + '.' + b['name']] = b['cmust']
            if b['k'] == 'class' and b.get('nmust'):
                must[m + '.' + b['name'] + '.Inner'] = b['nmust']
    for m, alias, tgt in pending_must:
        if sum(1 for n, _k in [(b.get('name'), 0) for mm in mods if mm['name'] == m for b in mm['body']] if n == alias) == 0:
            must.setdefault(m, []).append(alias)
            must[m].extend('%s.%s' % (alias, x) for x in own_defs.get(tgt, []))
    return {'layout': layout, 'mods': mods, 'must': must, 'must_star': must_star}


def to_files(proj: Dict[str, Any]) -> Dict[str, str]:
    files: Dict[str, str] = {}
    for m in proj['mods']:
        lines = ['"""module %s"""' % m['name']]
        if m['all'] is not None:
            lines.append('__all__ = %r' % (m['all'],))
        for b in m['body']:
            if b['k'] == 'import':
                lines.append(b['text'])
            elif b['k'] == 'class':
                lines.append('class %s:' % b['name'])
                lines.append('    """ID:%d"""' % b['id'])
                for ci in b['cimports']:
                    lines.append('    ' + ci['text'])
                lines.append('    def meth(self):')
                lines.append('        """ID:%d"""' % b['method'])
                if b['nested']:
                    lines.append('    class Inner:')
                    lines.append('        """ID:%d"""' % b['nested'])
                    for ni in b.get('nimports', []):
                        lines.append('        ' + ni['text'])
            elif b['k'] == 'func':
                lines.append('def %s():' % b['name'])
                lines.append('    """ID:%d"""' % b['id'])
            elif b['k'] == 'var':
                lines.append('%s = %d' % (b['name'], b['value']))
            elif b['k'] == 'alias':
                lines.append('%s = %s' % (b['name'], b['expr']))
        path = m['name'].replace('.', '/') + ('/__init__.py' if m['is_pkg'] else '.py')
        files[path] = '\n'.join(lines) + '\n'
    return files
