"""Structure-aware docstring model for C09 (and C16): a document tree over unique word tokens with one
serialiser per docformat.  The model knows the intended visible text of everything it writes.

Document:
  {'blocks': [Block], 'fields': [Field]}
Block:
  {'t': 'para', 'runs': [Run]}                  Run = {'k': 'text'|'em'|'strong'|'code', 'words': [str]}
  {'t': 'bullet'|'enum', 'items': [[Block]]}    (items contain paras and at most one nested list)
  {'t': 'literal'|'doctest'|'code', 'lines': [str], 'intro': [str]}
  {'t': 'section', 'title': [str], 'blocks': [Block]}
Field:
  {'tag': 'param'|'keyword'|'return'|'raise'|'note'|'see'|'since'|'author'|'unknown'|'ivar'|'cvar',
   'arg': str|None, 'words': [str], 'type': [str]|None}
"""
from __future__ import annotations

from typing import Any, Dict, List, Optional, Tuple

from hypothesis import strategies as st

LITERAL_LINES = ['x = {1: <b>}', 'if a < b and c > d:', '    indented & more', '*not em* `not ref` L{not link}', '@param not: a field', ':param not: either',
                 'trailing colon::', '- not a list', '>>> not doctest', 'a   b    c', '"quotes" \'single\'', '\\backslash\\n', 'Args:', '----', 'x ; y ## z']
DOCTEST_EXPRS = ['1 + 1', 'print("a < b")', 'x = [1, 2]', 'for i in x: pass', "d = {'k': '<v>'}", 'area(2, 3)  # doctest: +ELLIPSIS', 'print(x) #doctest: +SKIP', 's = "# doctest: +X in a string"',
                 'f()  # an ordinary comment', 'y = 1;  z = 2   # doctest:+NORMALIZE_WHITESPACE', "print('''a''')", 'x[1:2] @ y', 'lambda: (yield)', 'r"\\d" + b"\\x00"']


class Counter:
    def __init__(self) -> None:
        self.n = 0

    def words(self, k: int) -> List[str]:
        out = []
        for _ in range(k):
            self.n += 1
            out.append('w%dq' % self.n)
        return out


@st.composite
def documents(draw: Any, kind: str = 'function', fmt_family: str = 'markup', max_blocks: int = 4, epytext: bool = False) -> Dict[str, Any]:
    """kind: function | class | module (decides which fields are legal).  fmt_family: 'markup' (epytext/reST),
    'sections' (google/numpy: fields limited to what their sections express)."""
    c = Counter()

    def runs() -> List[Dict[str, Any]]:
        out = []
        for i in range(draw(st.integers(1, 4))):
            # 'xref': a cross-reference with a label of its own; the same target may be referred to several times, each time with
            # another label
            k = draw(st.sampled_from(['text', 'text', 'em', 'strong', 'code', 'xref']))
            if out and out[-1]['k'] == k == 'text':
                k = 'em'
            out.append({'k': k, 'words': c.words(draw(st.integers(1, 3))), 'target': draw(st.sampled_from(['Engine', 'Engine', 'Engine.start'])) if k == 'xref' else None,
                        # no blank between this run and the one before it: markup inside a word, markup next to markup
                        'glue': bool(out) and (k != 'text' or out[-1]['k'] != 'text') and draw(st.integers(0, 3)) == 0})
            # markup glued to a word that ends in a capital letter or a digit (HTTPB{S}, I{x}2C{y}): a capital before the tag letter
            # is part of the word
            if out[-1]['glue'] and k != 'text' and len(out) > 1 and out[-2]['k'] == 'text':
                out[-1]['cap'] = draw(st.sampled_from(['', 'Z', 'AB', '9', 'E']))
        return out

    def para() -> Dict[str, Any]:
        return {'t': 'para', 'runs': runs(), 'wrap': draw(st.integers(0, 2)) == 0}

    def lst(depth: int) -> Dict[str, Any]:
        items = []
        for _ in range(draw(st.integers(1, 3))):
            # an item starts with a paragraph or with a pre-formatted block (whose introduction is its first paragraph)
            shape = draw(st.sampled_from(['para', 'para', 'para+list', 'para+para', 'para+pre', 'para+pre+para', 'pre', 'pre+para', 'pre+para']))
            it: List[Dict[str, Any]] = []
            for part in shape.split('+'):
                if part == 'para':
                    it.append(para())
                elif part == 'pre':
                    it.append(pre())
                elif depth < 2:
                    it.append(lst(depth + 1))
            if epytext:
                # epytext delimits a literal block by the indentation of the paragraph that introduces it; for the
                # one-line first paragraph of an item that is the bullet's, so anything after the block in the same item
                # would belong to it; an (indented) list after a block always would; doctest blocks are not legal in items
                for b_ in it:
                    if b_['t'] == 'doctest':
                        b_['t'] = 'literal'
                        b_['lines'] = ['x = 1']
                if it[0]['t'] != 'para' and not it[0].get('intro_wrap'):
                    it = it[:1]
                cut = None
                for bi_, b_ in enumerate(it):
                    if b_['t'] in ('bullet', 'enum') and bi_ and it[bi_ - 1]['t'] != 'para':
                        cut = bi_
                        break
                if cut is not None:
                    it = it[:cut]
            items.append(it)
        return {'t': draw(st.sampled_from(['bullet', 'enum'])), 'items': items}

    def pre() -> Dict[str, Any]:
        t = draw(st.sampled_from(['literal', 'literal', 'doctest', 'code']))
        if t == 'doctest':
            lines = []
            for _ in range(draw(st.integers(1, 2))):
                lines.append('>>> ' + draw(st.sampled_from(DOCTEST_EXPRS)))
                if draw(st.booleans()):
                    lines.append(c.words(1)[0] + ' <out>')
        else:
            lines = draw(st.lists(st.sampled_from(LITERAL_LINES), min_size=1, max_size=3))
            if lines[0].startswith(' '):
                lines = ['first'] + lines
        return {'t': t, 'lines': lines, 'intro': c.words(draw(st.integers(2, 4))), 'intro_wrap': draw(st.booleans())}

    def block(depth: int) -> Dict[str, Any]:
        k = draw(st.sampled_from(['para', 'para', 'list', 'pre']))
        if k == 'para':
            return para()
        if k == 'list':
            return lst(1)
        return pre()

    blocks: List[Dict[str, Any]] = [para()]
    for _ in range(draw(st.integers(0, max_blocks - 1))):
        nb = block(0)
        # epytext: an indented list right after a literal block would belong to the literal block
        if nb['t'] in ('bullet', 'enum') and blocks[-1]['t'] in ('literal', 'code', 'doctest'):
            blocks.append(para())
        blocks.append(nb)
    if draw(st.integers(0, 3)) == 0:
        blocks.append({'t': 'section', 'title': c.words(2), 'blocks': [para()] + ([block(1)] if draw(st.booleans()) else [])})
    # never end the body on a list directly followed by fields in formats where that is ambiguous
    if blocks[-1]['t'] in ('bullet', 'enum'):
        blocks.append(para())
    fields: List[Dict[str, Any]] = []
    if kind == 'function':
        for p in draw(st.lists(st.sampled_from(['a', 'b', 'c']), unique=True, max_size=3)):
            fields.append({'tag': 'param', 'arg': p, 'words': c.words(draw(st.integers(1, 3))), 'type': c.words(1) if draw(st.booleans()) else None})
        if draw(st.booleans()):
            fields.append({'tag': 'return', 'arg': None, 'words': c.words(2), 'type': c.words(1) if draw(st.booleans()) else None})
        if fmt_family == 'markup' and draw(st.integers(0, 2)) == 0:
            fields.append({'tag': 'yield', 'arg': None, 'words': c.words(2), 'type': c.words(1) if draw(st.booleans()) else None})
        if draw(st.booleans()):
            fields.append({'tag': 'raise', 'arg': 'ValueError', 'words': c.words(2), 'type': None})
        if fmt_family == 'markup' and draw(st.booleans()):
            fields.append({'tag': 'keyword', 'arg': 'kw1', 'words': c.words(2), 'type': None})
    if not epytext:
        # a field body with structure: introduction ending in '::', a literal block, and (mostly) a paragraph after it
        for x in fields:
            # (a google "Returns" entry without a type reads everything before the first colon as the type: no colons there)
            if x['tag'] in ('param', 'return', 'raise') and (x['tag'] != 'return' or x.get('type')) and draw(st.integers(0, 2)) == 0:
                x['lit'] = {'lines': [ln if not ln.startswith(' ') else 'first' for ln in draw(st.lists(st.sampled_from(LITERAL_LINES + ['for i in s:', '    handle(i)']), min_size=1, max_size=3))],
                            # (google/numpy "Raises" entries are converted to a field whose body starts on the marker line: a
                            # literal block that ends such a body is not indented relative to anything - docutils rejects it)
                            'after': c.words(draw(st.integers(1, 3))) if (draw(st.integers(0, 3)) > 0 or (x['tag'] == 'raise' and fmt_family == 'sections')) else []}
    if kind == 'class':
        for v in draw(st.lists(st.sampled_from(['iv1', 'iv2']), unique=True, max_size=2)):
            fields.append({'tag': 'ivar', 'arg': v, 'words': c.words(2), 'type': c.words(1) if draw(st.booleans()) else None})
        if fmt_family == 'markup' and draw(st.booleans()):
            fields.append({'tag': 'cvar', 'arg': 'cv1', 'words': c.words(2), 'type': None})
    if fmt_family == 'markup':
        for tag in draw(st.lists(st.sampled_from(['note', 'see', 'since', 'author']), unique=True, max_size=2)):
            fields.append({'tag': tag, 'arg': None, 'words': c.words(2), 'type': None})
        if draw(st.integers(0, 4)) == 0:
            fields.append({'tag': 'unknown', 'arg': None, 'words': c.words(2), 'type': None, 'name': 'customtag'})
    # google / numpy: a "See Also" section; the description of an entry is prose and may contain colons
    seealso: List[Dict[str, Any]] = []
    if fmt_family == 'sections' and draw(st.integers(0, 2)) == 0:
        for nm in draw(st.lists(st.sampled_from(['Engine', 'Engine.start']), min_size=1, max_size=2, unique=True)):
            seealso.append({'name': nm, 'words': c.words(draw(st.integers(2, 4))), 'colon': draw(st.sampled_from([0, 0, 1, 2]))})
    # google: the type of an entry written over two lines; the description then starts on the colon line or on the line below it
    if fmt_family == 'sections':
        for x in fields:
            if x['tag'] in ('param', 'ivar') and x.get('type') and not x.get('lit') and draw(st.integers(0, 3)) == 0:
                x['mltype'] = draw(st.sampled_from(['desc-on-colon-line', 'desc-below', 'desc-below']))
    # a description may begin with punctuation that a field separator is also made of ("-1 means ...", "--verbose sets ...")
    if fmt_family == 'markup':
        for x in fields:
            if x['tag'] in ('param', 'keyword', 'raise', 'note', 'ivar', 'cvar') and not x.get('lit') and draw(st.integers(0, 4)) == 0:
                x['lead'] = draw(st.sampled_from(['-', '--', ':', '-:', ':-']))
    # reStructuredText: the parameters written as one consolidated field holding a bullet list or a definition list
    consolidated = None
    if fmt_family == 'markup' and not epytext and any(x['tag'] == 'param' and not x.get('lit') for x in fields) and draw(st.integers(0, 2)) == 0:
        consolidated = {'form': draw(st.sampled_from(['bullet', 'bullet', 'deflist'])), 'sep': draw(st.sampled_from([': ', ' - ', ' : ', '- ', ' -- ']))}
    # the field that gives the type may be written before the field that gives the description
    for x in fields:
        if x.get('type') and fmt_family == 'markup' and draw(st.integers(0, 2)) == 0:
            x['type_first'] = True
    return {'blocks': blocks, 'fields': fields, 'kind': kind, 'seealso': seealso, 'consolidated': consolidated}


# ------------------------------------------------------------------ expected visible content

def body_tokens(blocks: List[Dict[str, Any]]) -> List[str]:
    out: List[str] = []
    for b in blocks:
        t = b['t']
        if t == 'para':
            for r in b['runs']:
                out.extend(r['words'])
        elif t in ('bullet', 'enum'):
            for it in b['items']:
                out.extend(body_tokens(it))
        elif t in ('literal', 'doctest', 'code'):
            out.extend(b['intro'])
            for l in b['lines']:
                out.extend(_tok(l))
        elif t == 'section':
            out.extend(b['title'])
            out.extend(body_tokens(b['blocks']))
    return out


def _tok(line: str) -> List[str]:
    import re
    return re.findall(r'w\d+q', line)


def pre_blocks(blocks: List[Dict[str, Any]]) -> List[str]:
    out: List[str] = []
    for b in blocks:
        if b['t'] in ('literal', 'doctest', 'code'):
            out.append('\n'.join(b['lines']))
        elif b['t'] in ('bullet', 'enum'):
            for it in b['items']:
                out.extend(pre_blocks(it))
        elif b['t'] == 'section':
            out.extend(pre_blocks(b['blocks']))
    return out


# ------------------------------------------------------------------ serialisers

def _inline(runs: List[Dict[str, Any]], fmt: str) -> str:
    text = ''
    for i, r in enumerate(runs):
        w = ' '.join(r['words'])
        k = r['k']
        if fmt == 'epytext':
            piece = {'text': w, 'em': 'I{%s}' % w, 'strong': 'B{%s}' % w, 'code': 'C{%s}' % w, 'xref': 'L{%s <%s>}' % (w, r.get('target'))}[k]
            sep = '' if r.get('glue') else ' '
        else:
            piece = {'text': w, 'em': '*%s*' % w, 'strong': '**%s**' % w, 'code': '``%s``' % w, 'xref': '`%s <%s>`' % (w, r.get('target'))}[k]
            # reST needs a boundary around inline markup: the escaped blank is one that leaves no trace
            sep = '\\ ' if r.get('glue') else ' '
        text += (sep if i else '') + piece if not r.get('cap') else r['cap'] + ('' if fmt == 'epytext' else '\\ ') + piece
    return text


def _blocks(blocks: List[Dict[str, Any]], fmt: str, indent: int, under: str = '=') -> List[str]:
    """Lines (without trailing blank line); blocks separated by one blank line."""
    pad = ' ' * indent
    out: List[str] = []
    for bi, b in enumerate(blocks):
        if bi:
            out.append('')
        t = b['t']
        if t == 'para':
            if b.get('wrap') and len(b['runs']) >= 2:
                k = max(1, len(b['runs']) // 2)
                out.append(pad + _inline(b['runs'][:k], fmt))
                out.append(pad + _inline(b['runs'][k:], fmt))
            else:
                out.append(pad + _inline(b['runs'], fmt))
        elif t in ('bullet', 'enum'):
            # epytext: a list must be indented relative to the paragraphs around it
            lpad = pad + ('  ' if fmt == 'epytext' else '')
            for ii, it in enumerate(b['items']):
                marker = '- ' if t == 'bullet' else '%d. ' % (ii + 1)
                first = _blocks([it[0]], fmt, 0)
                cont = ' ' * (len(lpad) + len(marker))
                for fj, fl in enumerate(first):
                    out.append((lpad + marker + fl) if fj == 0 else ((cont + fl) if fl else ''))
                rest = it[1:]
                if rest:
                    out.append('')
                    out.extend(_blocks(rest, fmt, len(lpad) + len(marker)))
                    out.append('')
            if out and out[-1] == '':
                out.pop()
        elif t in ('literal', 'doctest', 'code'):
            iw = b['intro']
            if b.get('intro_wrap') and len(iw) >= 2:
                out.append(pad + ' '.join(iw[:len(iw) // 2]))
                intro = ' '.join(iw[len(iw) // 2:])
            else:
                intro = ' '.join(iw)
            if t == 'doctest':
                out.append(pad + intro)
                out.append('')
                out.extend(pad + l for l in b['lines'])
            elif t == 'code' and fmt != 'epytext':
                out.append(pad + intro)
                out.append('')
                out.append(pad + '.. code:: python')
                out.append('')
                out.extend((pad + '    ' + l) if l else '' for l in b['lines'])
            else:
                out.append(pad + intro + '::')
                out.append('')
                out.extend((pad + '    ' + l) if l else '' for l in b['lines'])
        elif t == 'section':
            title = ' '.join(b['title'])
            out.append(pad + title)
            out.append(pad + under * len(title))
            out.append('')
            out.extend(_blocks(b['blocks'], fmt, indent, '-'))
    return out


def _lit_lines(lit: Dict[str, Any], body_indent: int) -> List[str]:
    """The literal block of a structured field body (indented 4 more than the body) and the paragraph after it."""
    out = ['']
    out += [' ' * (body_indent + 4) + ln for ln in lit['lines']]
    if lit['after']:
        out += ['', ' ' * body_indent + ' '.join(lit['after'])]
    return out


def seealso_text(e: Dict[str, Any]) -> str:
    w = list(e['words'])
    for k in range(e.get('colon', 0)):
        w[min(k, len(w) - 2)] += ':'     # "slower variant: kept for compatibility", "ratio is 3: 1"
    return ' '.join(w)


def seealso_tokens(doc: Dict[str, Any]) -> List[str]:
    return [t for e in doc.get('seealso') or [] for t in e['words']]


def field_text(x: Dict[str, Any]) -> str:
    """The description of a field as written (markup family): its words, possibly led by punctuation."""
    return (x.get('lead') or '') + ' '.join(x['words'])


def serialise(doc: Dict[str, Any], fmt: str) -> str:
    text = _serialise(doc, fmt)
    if fmt in ('google', 'numpy') and doc.get('seealso'):
        if fmt == 'numpy':
            extra = ['See Also', '--------'] + ['%s : %s' % (e['name'], seealso_text(e)) for e in doc['seealso']]
        else:
            extra = ['See Also:'] + ['    %s: %s' % (e['name'], seealso_text(e)) for e in doc['seealso']]
        text = text + '\n\n' + '\n'.join(extra)
    return text


def _serialise(doc: Dict[str, Any], fmt: str) -> str:
    if fmt == 'plaintext':
        return '\n'.join(_blocks(doc['blocks'], 'restructuredtext', 0))
    base = 'epytext' if fmt == 'epytext' else 'restructuredtext'
    lines = _blocks(doc['blocks'], base, 0)
    f = doc['fields']
    if not f:
        return '\n'.join(lines)
    lines.append('')
    if fmt in ('epytext', 'restructuredtext'):
        def fl(tag: str, arg: Optional[str], text: str) -> str:
            head = tag + ((' ' + arg) if arg else '')
            return ('@%s: %s' if fmt == 'epytext' else ':%s: %s') % (head, text)
        cons = doc.get('consolidated') if fmt == 'restructuredtext' else None
        if cons:
            ps = [x for x in f if x['tag'] == 'param' and not x.get('lit')]
            lines.append(':Parameters:')
            for x in ps:
                if cons['form'] == 'bullet':
                    lines.append('  - `%s`%s%s' % (x['arg'], cons['sep'], field_text(x)))
                else:
                    lines.append('    %s%s' % (x['arg'], (' : ' + ' '.join(x['type'])) if x.get('type') else ''))
                    lines.append('        ' + field_text(x))
            lines.append('')
        for x in f:
            tag = x.get('name') if x['tag'] == 'unknown' else x['tag']
            if cons and x['tag'] == 'param' and not x.get('lit'):
                if x.get('type') and cons['form'] == 'bullet':
                    lines.append(fl('type', x['arg'], ' '.join(x['type'])))
                continue
            if x.get('lit') and fmt != 'epytext':
                if x['lit']['after']:
                    lines.append(fl(tag, x['arg'], ' '.join(x['words']) + '::'))
                else:
                    # the block ends the field body: the body starts on the line after the marker, so that its indentation is known
                    lines.append(fl(tag, x['arg'], '').rstrip())
                    lines.append('  ' + ' '.join(x['words']) + '::')
                lines += _lit_lines(x['lit'], 2)
            else:
                lines.append(fl(tag, x['arg'], field_text(x)))
            if x.get('type'):
                ttag = {'param': 'type', 'keyword': 'type', 'return': 'rtype', 'ivar': 'type', 'cvar': 'type', 'yield': 'ytype'}[x['tag']]
                tline = fl(ttag, x['arg'] if ttag == 'type' else None, ' '.join(x['type']))
                if x.get('type_first') and not x.get('lit'):
                    lines.insert(len(lines) - 1, tline)
                else:
                    lines.append(tline)
    else:
        groups: List[Tuple[str, List[Dict[str, Any]]]] = []
        for title, tags in (('Args' if fmt == 'google' else 'Parameters', ('param',)), ('Attributes', ('ivar',)),
                            ('Returns', ('return',)), ('Raises', ('raise',))):
            xs = [x for x in f if x['tag'] in tags]
            if xs:
                groups.append((title, xs))
        for gi, (title, xs) in enumerate(groups):
            if gi:
                lines.append('')
            if fmt == 'google':
                lines.append(title + ':')
                for x in xs:
                    text = ' '.join(x['words'])
                    if x.get('lit'):
                        text += '::'
                    if x['tag'] == 'return':
                        lines.append('    %s%s' % ((' '.join(x['type']) + ': ') if x.get('type') else '', text))
                    elif x['tag'] == 'raise':
                        lines.append('    %s: %s' % (x['arg'], text))
                    elif x.get('mltype') and x.get('type'):
                        lines.append('    %s (List[' % x['arg'])
                        if x['mltype'] == 'desc-on-colon-line':
                            lines.append('        %s]): %s' % (' '.join(x['type']), text))
                        else:
                            lines.append('        %s]):' % ' '.join(x['type']))
                            lines.append('        ' + text)
                    else:
                        lines.append('    %s%s: %s' % (x['arg'], (' (%s)' % ' '.join(x['type'])) if x.get('type') else '', text))
                    if x.get('lit'):
                        # the lines that follow the first line of a "Returns" entry are indented to match it (the Google style
                        # guide example); those of an argument or exception are indented relative to its name
                        lines += _lit_lines(x['lit'], 4 if x['tag'] == 'return' else 8)
            else:
                lines.append(title)
                lines.append('-' * len(title))
                for x in xs:
                    text = ' '.join(x['words']) + ('::' if x.get('lit') else '')
                    if x['tag'] == 'return':
                        lines.append(' '.join(x['type']) if x.get('type') else 'object')
                        lines.append('    ' + text)
                    elif x['tag'] == 'raise':
                        lines.append(x['arg'])
                        lines.append('    ' + text)
                    else:
                        lines.append('%s%s' % (x['arg'], (' : ' + ' '.join(x['type'])) if x.get('type') else ''))
                        lines.append('    ' + text)
                    if x.get('lit'):
                        lines += _lit_lines(x['lit'], 4)
    return '\n'.join(lines)
