"""Re-export / order-dependence project generator (C06, C07).

Package p with private implementation modules, one re-exporter per exported object (the package itself or a sibling
module `api`; plain, renamed or star import; __all__ as list or tuple), and consumer modules that reach the object in
every way the statement lists.  Every definition carries an identity token `ID:<n>` in its docstring.

The abstract project is JSON:
 {'impl': [{'mod': '_a', 'defs': [{'name': 'K1', 'id': 1, 'kind': 'class'|'func', 'bases': [...], 'members': ['m']}], 'all': None|[...]}],
  'exports': [{'obj': 'K1', 'from': '_a', 'via': 'pkg'|'api', 'form': 'plain'|'renamed'|'star'|'absolute', 'as': 'K1'|'Pub1', 'alltype': 'list'|'tuple'}],
  'consumers': [{'mod': 'c1', 'uses': [{'obj': 'K1', 'how': 'from-impl'|'from-exporter'|'both'|'modalias'|'pkgalias', 'as': 'base'|'ann'|'xref-old'|'xref-new'|'name'}]}],
  'extra': {...}}
"""
from __future__ import annotations

from typing import Any, Dict, List, Optional, Tuple

from hypothesis import strategies as st


@st.composite
def projects(draw: Any, cycles: bool = False, star_consumers: bool = False) -> Dict[str, Any]:
    nid = [0]

    def new_id() -> int:
        nid[0] += 1
        return nid[0]
    impl = []
    attrchain = draw(st.integers(0, 2)) == 0   # the first class sets self.t, every class below it overrides t in its body
    all_defs: List[Tuple[str, Dict[str, Any]]] = []
    for mod in draw(st.sampled_from([['_a'], ['_a', '_b'], ['_a', '_b', 'zimpl']])):
        defs = []
        for i in range(draw(st.integers(1, 3))):
            kind = draw(st.sampled_from(['class', 'class', 'func']))
            name = ('K%d' if kind == 'class' else 'f%d') % new_id()
            d = {'name': name, 'id': nid[0], 'kind': kind, 'bases': [], 'members': ['m'] if kind == 'class' and draw(st.integers(0, 3)) > 0 else [],
                 'nested': bool(kind == 'class' and draw(st.integers(0, 2)) == 0),
                 'exc': bool(kind == 'class' and draw(st.integers(0, 2)) == 0),   # a root class derives from Exception: every class below it is an exception class
                 # an attribute 't' set on the instance in __init__ ('ivar') or in the class body ('cvar'): a class variable that
                 # overrides an inherited instance variable is documented as an instance variable, whatever the processing order
                 'attr': (draw(st.sampled_from([None, None, 'ivar', 'cvar'])) if not attrchain else ('cvar' if any(x['kind'] == 'class' for _m, x in all_defs) else 'ivar')) if kind == 'class' else None}
            defs.append(d)
            all_defs.append((mod, d))
        impl.append({'mod': mod, 'defs': defs})
    # cross-module bases between implementation classes (earlier ones)
    classes = [(m, d) for m, d in all_defs if d['kind'] == 'class']
    for i, (m, d) in enumerate(classes):
        if i and (attrchain or draw(st.booleans())):
            bm, bd = classes[draw(st.integers(0, i - 1))]
            d['bases'] = [[bm, bd['name']]]
    exports = []
    for m, d in all_defs:
        if draw(st.integers(0, 3)) > 0:
            form = draw(st.sampled_from(['plain', 'plain', 'renamed', 'star', 'absolute']))
            exports.append({'obj': d['name'], 'from': m, 'via': draw(st.sampled_from(['pkg', 'pkg', 'api'])), 'form': form,
                            'as': ('Pub' + d['name']) if form == 'renamed' else d['name'], 'alltype': draw(st.sampled_from(['list', 'tuple']))})
            # the re-exporting import may sit in a block that is always entered (an optional dependency, a version check)
            exports[-1]['guard'] = draw(st.sampled_from([None, None, None, 'try', 'if', 'if-version']))
            # the re-exporting module defines a fallback of the same name first and imports the real thing over it
            if form != 'star' and draw(st.integers(0, 4)) == 0:
                exports[-1]['fallback'] = draw(st.sampled_from(['class', 'func']))
            if form == 'renamed' and draw(st.booleans()):
                # the defining module has an unrelated object that is called like the exported name: it stays where it is
                exports[-1]['clash_id'] = new_id()
    for e in exports:
        if e.get('clash_id') and any(x['form'] == 'star' and x['from'] == e['from'] for x in exports):
            del e['clash_id']  # a star import of the same module would bind the name too: which binding is exported depends on line order
    # a star import exports every name of that module that is listed: keep one via per (from, star)
    consumers = []
    cnames = draw(st.sampled_from([['c1'], ['c1', 'c2'], ['a_first', 'c2'], ['c1', 'zlast']]))
    for cm in cnames:
        uses = []
        for _ in range(draw(st.sampled_from([1, 1, 1, 2, 3, 4]))):
            m, d = draw(st.sampled_from(all_defs))
            how = draw(st.sampled_from(['from-impl', 'from-exporter', 'both', 'modalias', 'pkgalias', 'pkgalias', 'modalias', 'dotted', 'dotted']))
            as_ = draw(st.sampled_from(['base', 'base', 'base', 'ann', 'xref-old', 'xref-new', 'name'] if d['kind'] == 'class' else ['ann', 'xref-old', 'xref-new', 'name']))
            uses.append({'obj': d['name'], 'from': m, 'how': how, 'as': as_, 'rebind': bool(as_ == 'base' and d['members'] and draw(st.integers(0, 3)) > 0),
                         'cvar': bool(as_ == 'base' and (attrchain or draw(st.booleans())))})
        consumers.append({'mod': cm, 'uses': uses})
    if attrchain:
        # make the chain matter: a consumer class that overrides t derives from a chain class that is re-exported by the sibling
        # module api, and reaches it through its defining module (so that it may be registered before the class is moved)
        chained = [(m, d) for m, d in all_defs if d['kind'] == 'class' and d['bases']]
        if chained:
            m, d = draw(st.sampled_from(chained))
            e = None
            for x in exports:
                if x['obj'] == d['name']:
                    e = x
            if e is None:
                e = {'obj': d['name'], 'from': m, 'via': 'api', 'form': 'plain', 'as': d['name'], 'alltype': 'list'}
                exports.append(e)
            elif draw(st.booleans()) and e['form'] != 'star':
                e['via'] = 'api'
            consumers[0]['uses'].insert(0, {'obj': d['name'], 'from': m, 'how': draw(st.sampled_from(['modalias', 'dotted', 'pkgalias'])), 'as': 'base', 'rebind': False, 'cvar': True})
    docformat = draw(st.integers(0, 6)) == 0   # the package sets __docformat__, class docstrings declare attributes in fields of that format
    extra = {'docformat': docformat, 'cycle': cycles and draw(st.booleans()), 'star_consumer': star_consumers and draw(st.booleans()), 'second_root': draw(st.integers(0, 3)) == 0}
    # (the exports may have been changed since the restrictions above were applied: apply them to what is returned)
    for e in exports:
        if any(x['form'] == 'star' and x['from'] == e['from'] for x in exports):
            e.pop('clash_id', None)
    return {'impl': impl, 'exports': exports, 'consumers': consumers, 'extra': extra}


FALLBACK_AFTER_STAR = 'fallback-definition-between-star-import-and-import-of-the-same-name'


def fallback_after_star(proj: Dict[str, Any]) -> List[str]:
    """Exported names for which the re-exporter reads `from .m import *`, then defines a fallback of the name, then imports the name from
    .m again: the star import has moved the object already, the fallback supersedes it (finding F68)."""
    return [e['obj'] for e in proj['exports'] if e.get('fallback') and e['form'] != 'star'
            and any(x['form'] == 'star' and x['from'] == e['from'] and x['via'] == e['via'] for x in proj['exports'])]


def exporter_of(proj: Dict[str, Any], obj: str) -> Optional[Dict[str, Any]]:
    for e in proj['exports']:
        if e['obj'] == obj:
            return e
    return None


def new_location(proj: Dict[str, Any], obj: str, frm: str) -> str:
    """Qualified name under which the object must be documented."""
    e = exporter_of(proj, obj)
    if e is None:
        return 'p.%s.%s' % (frm, obj)
    return ('p.' if e['via'] == 'pkg' else 'p.api.') + e['as']


def to_files(proj: Dict[str, Any]) -> Tuple[Dict[str, str], Dict[str, Any]]:
    """Serialise; returns (files, meta) where meta['consumers'] lists what to check."""
    files: Dict[str, str] = {}
    defs: Dict[str, Tuple[str, Dict[str, Any]]] = {}
    for im in proj['impl']:
        lines = ['"""impl module %s"""' % im['mod']]
        for d in im['defs']:
            for bm, bn in d['bases']:
                if bm != im['mod']:
                    lines.append('from p.%s import %s' % (bm, bn))
        if proj['extra'].get('cycle') and im['mod'] == '_a':
            lines.append('from p import api as _cyc_api')
            lines.append('import p.c1')
        # a helper class that is never exported: annotations of members of exported classes name it
        lines += ['class Hlp%s:' % im['mod'], '    """helper of %s"""' % im['mod']]
        for d in im['defs']:
            defs[d['name']] = (im['mod'], d)
            if d['kind'] == 'class':
                lines.append('class %s%s:' % (d['name'], '(' + ', '.join(b[1] for b in d['bases']) + ')' if d['bases'] else ('(Exception)' if d.get('exc') else '')))
                if proj['extra'].get('docformat'):
                    lines += ['    """ID:%d' % d['id'], '', '    :ivar fx%d: declared by a field' % d['id'], '    """']
                else:
                    lines.append('    """ID:%d"""' % d['id'])
                for mname in d['members']:
                    lines.append('    def %s(self):' % mname)
                    lines.append('        """ID:%d.%s"""' % (d['id'], mname))
                lines += ['    ha: Hlp%s = None' % im['mod'], '    def hm(self, x):', '        """hm', '', '        @type x: L{Hlp%s}' % im['mod'], '        """']
                if d.get('attr') == 'ivar':
                    lines += ['    def __init__(self):', '        self.t = 0']
                elif d.get('attr') == 'cvar':
                    lines += ['    t = 1']
                if d.get('nested'):
                    lines += ['    class Inner:', '        """ID:%d.Inner"""' % d['id'], '        def im(self):', '            """ID:%d.Inner.im"""' % d['id'],
                              '        iv = 1', '        """ID:%d.Inner.iv"""' % d['id'], '        class Deep:', '            """ID:%d.Inner.Deep"""' % d['id'],
                              '            def dm(self):', '                """ID:%d.Inner.Deep.dm"""' % d['id']]
            else:
                lines.append('def %s():' % d['name'])
                lines.append('    """ID:%d"""' % d['id'])
        for e in proj['exports']:
            if e.get('clash_id') and e['from'] == im['mod']:
                lines += ['class %s:' % e['as'], '    """ID:%d"""' % e['clash_id'], '    def cm(self):', '        """ID:%d.cm"""' % e['clash_id']]
                defs['__clash__' + e['as']] = (im['mod'], {'name': e['as'], 'id': e['clash_id'], 'kind': 'class', 'bases': [], 'members': ['cm'], 'clash': True})
        files['p/%s.py' % im['mod']] = '\n'.join(lines) + '\n'
    pkg_lines = ['"""package p"""'] + (['__docformat__ = "restructuredtext"'] if proj['extra'].get('docformat') else [])
    api_lines = ['"""api module"""']
    pkg_all: List[str] = []
    api_all: List[str] = []
    alltype = {'pkg': 'list', 'api': 'list'}
    for e in proj['exports']:
        tgt, allv = (pkg_lines, pkg_all) if e['via'] == 'pkg' else (api_lines, api_all)
        alltype[e['via']] = e['alltype']
        if e['form'] == 'plain':
            stmt = 'from .%s import %s' % (e['from'], e['obj'])
        elif e['form'] == 'absolute':
            stmt = 'from p.%s import %s' % (e['from'], e['obj'])
        elif e['form'] == 'renamed':
            stmt = 'from .%s import %s as %s' % (e['from'], e['obj'], e['as'])
        else:
            stmt = 'from .%s import *' % e['from']
        if e.get('fallback') == 'class':
            tgt += ['class %s:' % e['as'], '    \"\"\"pure-Python fallback\"\"\"', '    def fallback_member(self):', '        pass']
        elif e.get('fallback') == 'func':
            tgt += ['def %s():' % e['as'], '    \"\"\"pure-Python fallback\"\"\"']
        g = e.get('guard')
        if g == 'try':
            tgt += ['try:', '    ' + stmt, 'except ImportError:', '    pass']
        elif g == 'if':
            tgt += ['if True:', '    ' + stmt]
        elif g == 'if-version':
            tgt += ['import sys', 'if sys.version_info >= (3, 0):', '    ' + stmt]
        else:
            tgt.append(stmt)
        allv.append(e['as'])
    for lines, allv, key in ((pkg_lines, pkg_all, 'pkg'), (api_lines, api_all, 'api')):
        if allv:
            body = ', '.join(repr(x) for x in allv)
            lines.append('__all__ = %s' % ('[%s]' % body if alltype[key] == 'list' else '(%s,)' % body))
    files['p/__init__.py'] = '\n'.join(pkg_lines) + '\n'
    files['p/api.py'] = '\n'.join(api_lines) + '\n'
    checks: List[Dict[str, Any]] = []
    for cm in proj['consumers']:
        lines = ['"""consumer %s"""' % cm['mod']]
        body: List[str] = []
        for ui, u in enumerate(cm['uses']):
            obj, frm = u['obj'], u['from']
            e = exporter_of(proj, obj)
            exp_mod = ('p' if e['via'] == 'pkg' else 'p.api') if e else None
            exp_name = e['as'] if e else obj
            how = u['how']
            if how in ('from-exporter', 'both') and e is None:
                how = 'from-impl'
            local: Optional[str] = None
            if how == 'from-impl':
                local = 'I%d_%s' % (ui, obj)
                lines.append('from p.%s import %s as %s' % (frm, obj, local))
            elif how == 'from-exporter':
                local = 'E%d_%s' % (ui, obj)
                lines.append('from %s import %s as %s' % (exp_mod, exp_name, local))
            elif how == 'both':
                local = 'I%d_%s' % (ui, obj)
                lines.append('from p.%s import %s as %s' % (frm, obj, local))
                lines.append('from %s import %s as E%d_%s' % (exp_mod, exp_name, ui, obj))
            elif how == 'modalias':
                lines.append('import p.%s as im%d' % (frm, ui))
                local = 'im%d.%s' % (ui, obj)
            elif how == 'pkgalias':
                lines.append('from p import %s as pm%d' % (frm, ui))
                local = 'pm%d.%s' % (ui, obj)
            elif how == 'dotted':
                lines.append('import p.%s' % frm)
                local = 'p.%s.%s' % (frm, obj)
            uname = '%s_u%d' % (cm['mod'], ui)
            if u['as'] == 'base':
                body += ['class %s(%s):' % (uname, local), '    """consumer class"""']
                if u.get('rebind'):
                    # rebinding the name of an inherited method by assignment: whether this is documented as a new class
                    # variable must not depend on when the base class became known
                    body += ['    m = staticmethod(len)', '    newvar = 1']
                if u.get('cvar'):
                    body += ['    t = 3']
                checks.append({'type': 'base', 'obj': obj, 'from': frm, 'consumer': 'p.%s.%s' % (cm['mod'], uname), 'how': how})
            elif u['as'] == 'ann':
                body += ['def %s(x: %s) -> "%s":' % (uname, local, local), '    """consumer function"""']
                checks.append({'type': 'ann', 'obj': obj, 'from': frm, 'consumer': 'p.%s.%s' % (cm['mod'], uname), 'expr': local, 'how': how})
            elif u['as'] == 'xref-old':
                body += ['def %s():' % uname, '    """see L{p.%s.%s}"""' % (frm, obj)]
                checks.append({'type': 'xref', 'obj': obj, 'from': frm, 'consumer': 'p.%s.%s' % (cm['mod'], uname), 'target': 'p.%s.%s' % (frm, obj), 'how': 'xref-old'})
            elif u['as'] == 'xref-new':
                body += ['def %s():' % uname, '    """see L{%s}"""' % new_location(proj, obj, frm)]
                checks.append({'type': 'xref', 'obj': obj, 'from': frm, 'consumer': 'p.%s.%s' % (cm['mod'], uname), 'target': new_location(proj, obj, frm), 'how': 'xref-new'})
            else:
                body += ['%s = %s' % (uname, local)]
                checks.append({'type': 'name', 'obj': obj, 'from': frm, 'module': 'p.%s' % cm['mod'], 'expr': local, 'how': how})
        if proj['extra'].get('star_consumer') and cm['mod'] == 'c1':
            lines.append('from p import *')
        files['p/%s.py' % cm['mod']] = '\n'.join(lines + body) + '\n'
    if proj['extra'].get('cycle') and 'p/c1.py' not in files:
        files['p/c1.py'] = '"""c1"""\n'
    if proj['extra'].get('second_root'):
        first = proj['impl'][0]
        d0 = first['defs'][0]
        files['q.py'] = 'from p.%s import %s\nQ = %s\n' % (first['mod'], d0['name'], d0['name'])
        checks.append({'type': 'name', 'obj': d0['name'], 'from': first['mod'], 'module': 'q', 'expr': d0['name'], 'how': 'from-impl'})
    meta = {'defs': {n: {'mod': m, 'id': d['id'], 'kind': d['kind'], 'bases': d['bases'], 'want': ('p.%s.%s' % (m, d['name'])) if d.get('clash') else None,
                         'members': d['members'] + (['Inner', 'Inner.im', 'Inner.iv', 'Inner.Deep', 'Inner.Deep.dm'] if d.get('nested') else [])}
                     for n, (m, d) in defs.items()}, 'checks': checks}
    return files, meta
