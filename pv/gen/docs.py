"""G-DOC: docstring generators.

fragments()   markup-fragment fuzzer for the robustness properties (C08, C01): concatenations of fragments of all
              four markup languages, field syntax, indentation, control characters, lone surrogates, non-BMP, long
              lines, and mutated real docstrings harvested from the repository.
"""
from __future__ import annotations

import ast
import os
from typing import Any, Dict, List

from hypothesis import strategies as st

FRAGS = [
    # epytext inline / blocks / fields
    'L{', 'C{', 'I{', 'B{', 'U{', 'M{', 'X{', 'E{', 'G{', 'S{', '}', '{', 'L{a.b}', 'C{code}', 'L{text<target>}', 'U{http://x.y|}', 'E{lb}', 'E{nope}', 'S{alpha}', 'L{a b}', 'L{}',
    '@param x: ', '@type x: ', '@return: ', '@rtype: ', '@raise E: ', '@ivar v: ', '@cvar c: ', '@var v: ', '@see: ', '@note: ', '@unknown: ', '@param: ', '@type: ', '@', '@:', '@param x y: ',
    '@keyword k: ', '@author: ', '@since: ', '@todo: ', '@warning: ', '@newfield tag: Label', '@tag: custom', '@rtype: L{int} or C{None}', '@type x: list(int) of {str: bytes}, optional',
    '- item\n', '  - nested\n', '1. one\n', '1.2. sub\n', ' 2. two\n', '>>> 1+1\n2\n', '>>> print(', 'Title\n=====\n', 'Sub\n---\n', 'Bad\n~~\n', '概要\n==\n', 'Пример\n======\n', '概要\n==\n\ntext\n\n???\n---\n', '???\n===\n', '!!!\n~~~\n', '1.\n==\n', 'Title\n=====\n\nTitle\n=====\n', '-\n=\n', 'é\n=\n', 'a b\n===\n', ' \n=\n', '::\n\n    literal\n', '::', 'para::\n  lit\n',
    # reStructuredText
    '`', '``', '`ref`', '``lit``', '*em*', '**st**', '*', '**', '|sub|', '_', '__', 'ref_', '`text <target>`_', '`a`_', '.. _t:', '.. note:: n\n', '.. warning::\n   w\n', '.. code:: python\n\n   x = 1\n',
    '.. code-block:: py\n\n  y\n', '.. unknown:: x\n', '.. image:: x.png\n', '.. |s| replace:: t\n', '.. [1] foot\n', '[1]_', '.. math:: a^2\n', ':math:`x`', ':py:class:`C`', ':class:`~a.B`', ':func:`f()`', ':role:`x`',
    '    @param x: a\n@return: b\n', '  @type x: int\n@param x: a\n', '\n\n        @ivar a: x\n    @ivar b: y\n@ivar c: z\n', ':parameters: not a list\n', ':arguments: text\n', ':exceptions: x\n', ':variables: x\n', ':ivariables: x\n', ':cvariables: x\n', ':groups: x\n', ':types: x\n', ':keywords: x\n', ':Parameters: `a` b\n',
    ':param x: ', ':type x: ', ':returns: ', ':rtype: ', ':raises E: ', ':ivar v: ', ':var v: ', ':field', ':param', ': :', ':param x y z: ', ':Parameters:\n    x : int\n        doc\n', ':IVariables:\n  - `a`: d\n',
    '+---+\n| a |\n+---+\n', '=== ===\na   b\n=== ===\n', '\\ ', '\\', '\\*', '.. ', '..\n', '.. include:: /etc/passwd\n', '.. raw:: html\n\n   <b>x</b>\n', '.. contents::\n', '.. versionadded:: 1.0\n', '.. deprecated:: 2\n',
    # google / numpy
    'Args:\n', '    x (int): doc\n', '    *args: more\n', '    **kw: k\n', 'Returns:\n', '    str: r\n', 'Raises:\n', '    ValueError: v\n', 'Yields:\n', 'Attributes:\n', 'Note:\n', 'Example:\n', 'Examples::\n', 'See Also:\n',
    'Todo:\n', 'Warns:\n', 'Keyword Args:\n', 'Other Parameters:\n', 'Methods:\n', 'References:\n', 'Args:', 'Args :\n', 'Returns\n', 'Parameters\n----------\n', 'x : int\n    doc\n', 'x : {1, 2}, optional\n', 'Returns\n-------\n', 'int\n    r\n',
    'Raises\n------\n', 'Attributes\n----------\n', 'See Also\n--------\nf : g\n', 'Notes\n-----\n', 'Yields\n------\n', '----------\n', 'x: int\n', 'x : \n', ' : int\n', '*args, **kwargs\n', 'x, y : int\n',
    # text, whitespace, specials
    'word ', 'Sentence one. Sentence two! Three? ', '\n', '\n\n', '    ', '  ', '\t', ' \n', '\r\n', '\r', '\x0c', '\x0b', '\x00', '\x1b[0m', '\x7f', '\x85', ' ', ' ', '\xa0', '\xad', '﻿', '​',
    '\ud800', '\udfff', '\ud83d', '\U0001F600', 'é', '中文', 'עברית', '<b>', '</b>', '<script>alert(1)</script>', '&amp;', '&lt;', '&#0;', '&zq;', ']]>', '<!--', '-->', '<?xml', '"', "'", '\\n', '%s', '{}', '$', '^', '~', '|',
    'x' * 400, 'a.b.c.d.e.f.g.h', 'http://example.org/a?b=c&d=e', 'user@example.org', '#anchor', 'f()', 'mod.Class.method()', '(', ')', '[', ']', '1.', '-', '+', '=', '====', '----', '****', '....',
]


_harvest: Dict[str, List[str]] = {}


def real_docstrings(repo: str) -> List[str]:
    if repo not in _harvest:
        out: List[str] = []
        roots = [os.path.join(repo, 'pydoctor'), os.path.join(repo, 'docs')]
        for root in roots:
            for dp, dn, fn in os.walk(root):
                dn.sort()
                if '/test' in dp and 'testpackages' not in dp:
                    continue
                for f in sorted(fn):
                    if not f.endswith('.py'):
                        continue
                    try:
                        tree = ast.parse(open(os.path.join(dp, f), encoding='utf-8').read())
                    except Exception:
                        continue
                    for n in ast.walk(tree):
                        if isinstance(n, (ast.Module, ast.ClassDef, ast.FunctionDef, ast.AsyncFunctionDef)):
                            d = ast.get_docstring(n, clean=True)
                            if d and len(d) < 1500:
                                out.append(d)
        _harvest[repo] = out[:1200] or ['doc']
    return _harvest[repo]


def fragments(repo: str, max_frags: int = 10) -> Any:
    reals = real_docstrings(repo)
    frag = st.sampled_from(FRAGS)
    concat = st.lists(frag, min_size=1, max_size=max_frags).map(''.join)

    @st.composite
    def mutated(draw: Any) -> str:
        d = draw(st.sampled_from(reals))
        for _ in range(draw(st.integers(1, 3))):
            p = draw(st.integers(0, len(d)))
            op = draw(st.integers(0, 3))
            if op == 0:
                d = d[:p] + draw(frag) + d[p:]
            elif op == 1:
                d = d[:p] + d[p + draw(st.integers(1, 6)):]
            elif op == 2:
                lines = d.split('\n')
                i = draw(st.integers(0, len(lines) - 1))
                lines[i] = ' ' * draw(st.integers(0, 6)) + lines[i].lstrip()
                d = '\n'.join(lines)
            else:
                d = d[:p]
        return d
    arbitrary = st.text(alphabet=st.characters(), max_size=30)
    # characters that make a later stage (HTML writer / XML re-parse / encoding) fail although parsing succeeds, alone and
    # combined with each other: the fallbacks must cope with all of them at once
    breakers = st.sampled_from(['\xa0', '\uffff', '\ufffe', '\x0c', '\x00', '\x1b', '\x85', '\u2028', '\ud800', '\udfff', '\udc80', '\x7f', '\x0b', '\x1c'])
    hard = st.tuples(st.lists(breakers, min_size=1, max_size=3), st.lists(frag, min_size=0, max_size=4)).flatmap(
        lambda t: st.permutations(t[0] + t[1]).map(''.join))
    # section headings (underlined titles) only count at the start of a block: titles that leave nothing for an identifier
    # (no ASCII letter or digit), repeated titles, titles with markup - followed by ordinary fragments
    titles = st.sampled_from(['概要', 'Пример', '???', '!!!', '1.', '-', 'é', 'Title', 'Title', 'a b', 'L{x}', '`r`', 'x' * 70, '&<>', 'T\xa0t', ':'])
    under = st.sampled_from(['=', '-', '~'])
    heading = st.tuples(titles, under).map(lambda t: '%s\n%s\n' % (t[0], t[1] * len(t[0])))
    sectioned = st.tuples(st.lists(st.tuples(heading, concat), min_size=1, max_size=3), st.booleans()).map(
        lambda t: ('intro\n\n' if t[1] else '') + '\n\n'.join(h + '\n' + body for h, body in t[0]))
    # text that makes a parser fail with an exception of its own (not a markup error it reports): an ordinal beyond the integer
    # conversion limit; preceded by markup the parser complains about and recovers from, and by ordinary fragments
    complaints = st.sampled_from(['Text @notfield here.\n\n', 'Text *unclosed here.\n\n', '`unclosed\n\n', '@notafield\n\n', 'Bad\n~~\n\n', '.. unknown:: x\n\n', ''])
    crasher = st.tuples(st.lists(complaints, max_size=2), st.lists(frag, max_size=2), st.sampled_from(['%s. item\n' % ('1' * 4400), ' %s. item\n' % ('9' * 5000),
                                                                                                            # (text the parsers accept and the renderer fails on)
                                                                                                            'nbsp\xa0here\n', 'Fields:\n\n        @ivar a: x\n    @ivar b: y\n@ivar c: z\n', 'x\uffffy\n'])).map(
        lambda t: ''.join(t[0]) + ''.join(t[1]) + ('' if (''.join(t[0]) + ''.join(t[1])).endswith('\n') or not (t[0] or t[1]) else '\n\n') + t[2])
    return st.one_of(concat, concat, concat, mutated(), mutated(), arbitrary, hard, hard, sectioned, crasher)
