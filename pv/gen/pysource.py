"""G-SRC: Python source grammar (statement level) and mutators.

`modules()` draws the text of one module that (almost always) parses and covers every construct the
AST builder or a bundled extension looks at (DESIGN 5/C01).  Structure is drawn by hypothesis so the
shrinker removes statements; leaves come from fixed pools.
"""
from __future__ import annotations

import os
from typing import Any, List

from hypothesis import strategies as st

NAMES = ['a', 'b', 'c', 'x', 'y', 'f', 'g', 'C', 'D', 'E', 'Base', 'I', 'T', 'X', '_p', '__d__', 'self', 'cls', 'mod', 'dep', 'attr', 'typing']

EXPRS = [
    '1', '0x10', '1_000', '1.5', '1e999', '-0.0', '2j', 'True', 'None', '...', "'s'", '"q\\"x"', "b'by\\xff'", "'a' 'b'", "f'{x!r:>{w}}'",
    "'\\ud800'", "'\\x00\\x0c'", "'<b>&amp;</b>'", "'`x`'", "r'\\d+'", "'''multi\nline'''",
    'x', 'a.b.c', 'x[0]', 'x[1:2]', 'x[::2, ...]', 'x[a, b]', 'x[a,]', 'f()', 'f(1, *a, k=2, **kw)', 'f(*[])', 'a.b(c)(d)',
    '-x', 'not x', '~x', 'x + y * 2', '(x - (y - 1))', 'x ** -y', 'a if b else c', 'lambda: 0', 'lambda a, *b, c=1, **d: (a, b)',
    'x and y or z', 'a < b <= c', 'x is not None', 'a not in b', '[1, 2]', '[]', '(1,)', '()', '(1, 2)', '{1}', '{1: 2, **d}', '{}',
    '[i for i in x if i]', '{k: v for k, v in x}', '(i for i in x)', '{i async for i in x}' , '(y := 3)', '[*a, *b]', 'await x' ,
    'set([1])', 'dict(a=1)', 'object()', 'x @ y', 'x // y % z', 'a << 1 | b & c ^ d', "{'a': [1, (2, 3)], 'b': {4}}",
    'typing.Optional[int]', "'str'", "'List[\"int\"]'", "Literal['a', \"b\"]", 'Union[int, str]', 'Callable[..., None]', 'Callable[[int], str]',
    "'not valid python ('", "''", 'list[int] | None', 'Final', 'Final[int]', 'ClassVar[int]', 'typing.ClassVar', 'attr.ib()', 'attr.ib(default=1, type=int)',
    'attr.ib(*a)', 'attr.ib(type="int", default=attr.Factory(list))', 'Attribute("doc")', 'Attribute()', 'schema.TextLine(description="d")', 'TypeVar("T")', 'TypeVar()', 'TypeVar(*a)',
    'TypeVar("T", bound="C")', 'NewType("N", int)', 'property(f)', 'staticmethod(f)', 'classmethod(g)', 'Version("pkg", 1, 2, 3)', 'Version(*v)',
]

REGEXES = [
    r"re.compile('abc')", r"re.compile(r'\d+(?P<name>[a-z]*)\1(?P=name)')", r"re.compile(r'(?(1)yes|no)')", r"re.compile(r'(a)(?(1)b|c)')", r"re.compile(r'(?P<n>x)?(?(n)y|z)')",
    r"re.compile(r'(?=a)(?!b)(?<=c)(?<!d)')", r"re.compile(r'(?i)abc(?-i:d)')", r"re.compile(r'(?aiLmsux)x') ", r"re.compile(r'[a-z\d\]^-]+?[^\W_]*')", r"re.compile(r'a{2,5}?b{3}c{,4}d{1,}')",
    r"re.compile('a{99999999999999999999999}')", r"re.compile('a{4294967296}')", r"re.compile('(')", r"re.compile('[')", r"re.compile('*')", r"re.compile('(?P<1>a)')", r"re.compile('\\')", r"re.compile(r'\\')",
    r"re.compile(b'by\xfftes[\x00-\x1f]')", r"re.compile(rb'(?P<b>\d)')", r"re.compile('''multi\nline # c''', re.VERBOSE)", r"re.compile('a|b|', re.I | re.M)", r"re.compile(pattern='kw', flags=re.S)",
    r"re.compile()", r"re.compile(*args)", r"re.compile(x)", r"re.compile(1)", r"re.compile('a', 'b', 'c')", r"re.compile(r'\A\b\B\Z^$.')", r"re.compile(r'(?:non)(cap)(?#comment)')",
    r"re.compile(r'\x41\u00e9\U0001F600\N{DASH}\071\0')", r"re.compile('\ud800')", r"re.compile(r'(?>atomic)a*+b++c?+')", r"re.compile('(?s:.)(?P<a>(?P<b>x))')",
    r"re.compile('[[:alpha:]]')", r"re.compile(r'[\w--[a]]')", r"re.compile('a' 'b')", r"re.compile('%s' % x)", r"re.compile(r'(a)|b(?(1)c)')", r"re.compile('(?x) a b # c')",
]

EXPRS += [r.strip() for r in REGEXES]

DOCS = [
    'Text.\n\n    @param x: a\n@return: b', 'Text.\n\n  @type x: int\n@param x: a\n    @note: n\n@see: s', 'Summary\n\n        @ivar a: x\n    @ivar b: y\n@ivar c: z',
    '@type ghost: int', 'Summary.\n\n@type ghost: C{int}\n@type x: str', ':type ghost: int', 'Doc.\n\n:type ghost: `C`\n:ivar real: r\n:type real: int', '@ivar declared: d\n@type undeclared: int',
    '概要\n==\n\ntext\n\n???\n---\n\nmore', 'Intro.\n\nПример\n======\n\n  - item', '!!!\n===\n', ':parameters: not a list\n:return: r', ':Parameters:\n  one\n\n  two\n',
    'plain words here', '', ' ', 'Summary line.\n\n    Details.\n', 'L{C} and C{x} I{y} B{z} U{http://u}', 'L{unclosed', '@param x: the x\n@type x: int\n@return: r\n@rtype: C',
    '@param nope: missing\n@raise ValueError: v\n@ivar i: iv\n@cvar c: cv\n@see: that\n@note: n', '@unknownfield: u', ':param x: the x\n:type x: int\n:returns: r\n:rtype: `C`',
    '`C` and ``lit`` *em* **st** `broken', 'Title\n=====\n\ntext\n\nSub\n---\n', '.. note:: n\n\n.. code:: python\n\n    x = 1\n', '.. unknowndirective:: x', 'Args:\n    x (int): the x\n    *args: more\n\nReturns:\n    str: r\n\nRaises:\n    ValueError: v\n',
    'Parameters\n----------\nx : int\n    the x\n\nReturns\n-------\nstr\n    r\n', 'Attributes:\n    a (int): doc\n', '>>> 1+1\n2\n', 'para::\n\n    literal <b>\n\nend', '- item\n  - nested\n- item2\n 1. x', '<b>html</b> &amp; &lt; ]]> <!-- c -->',
    '\\x00\\x0c\\x1b', '\\ud800 lone', 'x' * 300, 'E{lb}E{rb} E{x}', '@type: int', '@param: noarg', ':ivar x:\n:vartype x: int', 'Example::\n  x\n y\n', '@rtype: L{a.b.c}\n@rtype: dup',
    '@since: 1.0\n@author: me\n@keyword k: kw\n@kwarg j: kw\n@precondition: p', 'S{alpha} M{x} X{idx} G{graph}', '    indented first\nless indented', 'Returns: x\n\nYields: y\n\nWarns: w\n\nNote:\n  n\n\nSee Also:\n  f\n',
]

DECOS = ['property', 'staticmethod', 'classmethod', 'overload', 'typing.overload', 'x.setter', 'x.deleter', 'f.setter', 'functools.wraps(g)', 'attr.s', 'attr.s(auto_attribs=True)',
         'attr.s(auto_attribs=x, **k)', 'attrs.define', 'implementer(I)', 'implementer(I, *others)', 'implementer()', 'interface.implementer(a.b.I)', 'deprecated(Version("p", 1, 2, 3))',
         'deprecated(Version("p", 1, 2, 3), replacement="f")', 'deprecated(Version("p", 1, 2, 3), "repl.name")', 'deprecated(*args)', 'deprecated(version=v)', 'deprecated()', 'deprecatedProperty(Version("p", 1, 2, 3))',
         'deprecate.deprecated(Version("<p>", 1, 2, 3), replacement="<b>")', 'abc.abstractmethod', 'cached_property', 'functools.cached_property', 'd[0]', 'lambda f: f', '(yield)', 'a.b.c(1)(2)', 'dataclass', 'staticmethod()', 'classmethod']

IMPORTS = [
    'import re', 'import re', 'import dep', 'import dep as d', 'import os.path', 'import a.b.c as abc', 'from dep import Base', 'from dep import Base as B, X', 'from dep import *', 'from mod import *', 'from . import sib',
    'from .sib import thing', 'from .. import up', 'from ...far import away as aw', 'from .... import *', 'from dep import nothere', 'from zope.interface import Interface, implementer, Attribute, classImplements, moduleProvides',
    'from zope import interface, schema', 'import zope.interface', 'import attr', 'import attrs', 'from attr import s, ib', 'from twisted.python.deprecate import deprecated, deprecatedProperty, deprecatedModuleAttribute',
    'from twisted.python import deprecate', 'from incremental import Version', 'from typing import *', 'from typing import TypeVar, Final, ClassVar, overload, Union, TYPE_CHECKING, TypeAlias, Literal', 'import typing', 'import typing as t',
    'from __future__ import annotations', 'import functools, abc', 'from functools import cached_property', 'from dataclasses import dataclass', 'import dep.sub.mod', 'from lib.pack.dep import Base', 'import lib.pack.mod as lpm', 'from lib.pack import dep as lpd', 'from lib import pack', 'import pkg', 'import pkg.dep', 'import pkg.sub.mod', 'from . import dep, sib', 'from pkg import dep, sib, mod', 'import pkg.sib as sib', 'from mod import C as Alias', 'from dep import Base as Base',
]

SPECIAL_ASSIGN = [
    "__all__ = ['C', 'f', 'x']", "__all__ = ('C',)", "__all__ = ['C'] + ['f']", "__all__ += ['g']", "__all__ = [{[]}]", "__all__ = [1, None]", "__all__ = 'C'", "__all__ = ['nothere', 'C', 'C']", "__all__ = dep.__all__ + ['x']",
    "__all__: list = ['C']", "__all__ = []", "__all__.append('z')", "__all__.extend(['q'])", "__all__ = x = ['C']", "__all__ = ['Base']", "__all__ = ['X', 'Base']",
    "__docformat__ = 'restructuredtext'", "__docformat__ = 'epytext en'", "__docformat__ = {[]}", "__docformat__ = 1", "__docformat__ = 'google'", "__docformat__ = 'numpy'", "__docformat__ = ''", "__docformat__ = 'nonsense'", "__docformat__ = 'plaintext'", "__docformat__: str = 'epytext'", "__docformat__ = '_types'", "__docformat__ = '_napoleon'", "__docformat__ = '_pyval_repr'", "__docformat__ = '__init__'", "__docformat__ = 'doctest'",
    "__docformat__ = 'epytext.x'", "__docformat__ = '.'", "__docformat__ = '..epytext'", "__docformat__ = 'a/b'", "__docformat__ = ' '", "__docformat__ = 'EPYTEXT'", "__docformat__ = 'restructuredtext en extra'",
    "__doc__ = 'assigned doc'", "__doc__ = {[]}", "__doc__ = x", "__doc__ += 'more'", "C.__doc__ = 'cdoc'", "C.__doc__ = {[]}", "C.f.__doc__ = 'x'", "nothere.__doc__ = 'x'", "f.__doc__ = '''d'''", "C.__doc__ = D.__doc__ = 'two'", "dep.__doc__ = 'from outside'", "pkg.dep.__doc__ = 'from outside'", "pkg.sib.__doc__ = 'x'", "pkg.mod.__doc__ = 'x'", "pkg.sub.mod.__doc__ = 'x'", "sib.__doc__ = 'x'",
    "dep.Base.__doc__ = 'x'", "pkg.dep.Base.m.__doc__ = 'x'", "pkg.__doc__ = 'x'", "mod.__doc__ = 'self'",
    "classImplements(C, I)", "classImplements(C)", "classImplements(*a)", "classImplements(nothere, I)", "moduleProvides(I)", "moduleProvides()", "interface.classImplements(C, a.b.I, *x)", "deprecatedModuleAttribute(Version('p', 1, 2, 3), 'msg', __name__, 'x')",
    "deprecatedModuleAttribute(Version('p', 1, 2, 3), 'msg', 'mod', 'x')", "deprecatedModuleAttribute(*a)", "deprecatedModuleAttribute()", "f = staticmethod(f)", "f = classmethod(f)", "g = property(g)", "f = staticmethod(nothere)", "f = staticmethod()", "C = D", "B = dep.Base", "al = mod.C", "x = x",
    "T = TypeVar('T')", "T = typing.TypeVar('T', bound='C')", "T = TypeVar()", "T = TypeVar(*a)", "T = TypeVar(name='T')", "Al = Union[int, 'C']", "Al: TypeAlias = 'int'", "Al: typing.TypeAlias = int | None", "K: Final = 3", "K: Final[int] = 3", "K: Final[1:2] = 3", "K: typing.Final = (1,)", "UPPER = 1", "UPPER = UPPER + 1",
    "x: 'not valid (' = 1", "x: int", "x: ClassVar[int] = 2", "a, b = 1, 2", "(a, (b, c)) = 1, (2, 3)", "*a, b = [1, 2]", "a = b = c = 3", "x += 1", "nothere += 1", "obj.attr = 1", "d['k'] = 1", "(y := 3)", "self.iv = 1", "self.iv: int = 1", "self.a.b = 2", "cls.cv = 3", "x = 1 # type: int", "x = [] # type: List[(]",
    "global gx", "del x", "del x, y.z", "pass", "...", "raise ValueError('v')", "assert x, 'm'", "print(x)", "x", "'bare string'", "f'fstring {x}'", "b'bytes'", "1", "return x", "yield x", "await y", "nonlocal nl", "import_all = '*'", "lambda: (yield)",
]


# statements that mean something special in a class body, about the names the function generator uses (f, g, x, m, _p, C)
CLASS_SPECIAL = ['f = staticmethod(f)', 'f = classmethod(f)', 'g = staticmethod(g)', 'm = classmethod(m)', 'x = staticmethod(x)', 'g = property(g)', 'x = property(f, g)', 'f = staticmethod(g)', 'C = staticmethod(C)',
                 '_p = classmethod(_p)', "__doc__ = 'assigned in the class body'", "__slots__ = ('a', 'b')", '__slots__ = "a"', "__all__ = ['f']", '__init__ = f', 'f = f', 'm = f', 'iv: int', 'f: int = 1', 'del f',
                 '__class_getitem__ = classmethod(f)', 'x = x.setter(f)', "f.__doc__ = 'x'", 'f = deprecated(Version("p", 1, 2, 3))(f)', 'implements(I)', 'classProvides(I)', '__metaclass__ = M']


def _ind(lines: List[str], n: int = 1) -> List[str]:
    return [('    ' * n + l) if l else l for l in lines]


def _docstring(doc: str, style: int) -> List[str]:
    q = "'''" if style % 2 else '"""'
    pre = 'r' if style % 5 == 0 and '\\u' not in doc else ''
    body = doc.replace(q, '')
    if body.endswith(q[0]):
        body += ' '
    if body.endswith('\\'):
        body += ' '
    if style % 3 == 0:
        return ('%s%s\n%s\n%s' % (pre, q, body, q)).split('\n')
    return ('%s%s%s%s' % (pre, q, body, q)).split('\n')


@st.composite
def _params(draw: Any, method: bool) -> str:
    parts: List[str] = []
    if method and draw(st.integers(0, 9)) > 0:
        parts.append(draw(st.sampled_from(['self', 'cls', 'self', 'this'])))
    n = draw(st.integers(0, 4))
    layout = draw(st.integers(0, 5))
    names = ['p%d' % i for i in range(n)]
    had_default = False
    for i, nm in enumerate(names):
        s = nm
        if draw(st.booleans()):
            s += ': ' + draw(st.sampled_from(EXPRS))
            eq = ' = '
        else:
            eq = '='
        if had_default or draw(st.integers(0, 2)) == 0:
            s += eq + draw(st.sampled_from(EXPRS))
            had_default = True
        parts.append(s)
        if layout == 1 and i == 0 and n > 1:
            parts.append('/')
            had_default = had_default
        if layout == 2 and i == 0:
            parts.append('*')
            had_default = False
        if layout == 3 and i == 0:
            parts.append('*args' + (': int' if draw(st.booleans()) else ''))
            had_default = False
    if layout == 4:
        parts.append('*args')
    if layout >= 3 and draw(st.booleans()):
        parts.append('**kw' + (': ' + draw(st.sampled_from(EXPRS)) if draw(st.booleans()) else ''))
    if parts and parts[-1] == '*':
        parts.pop()
    if parts and parts[0] == '/':
        parts.pop(0)
    return ', '.join(parts)


@st.composite
def _stmt(draw: Any, depth: int, ctx: str) -> List[str]:
    kinds = ['special', 'special', 'assign', 'assign', 'import', 'func', 'func', 'class', 'ctrl', 'attrdoc', 'deco_class']
    if depth >= 3:
        kinds = ['special', 'assign', 'import', 'attrdoc']
    if ctx == 'class':
        kinds = kinds + ['oldschool']
    if ctx in ('class', 'module') and depth < 3:
        kinds = kinds + ['overloads']
    k = draw(st.sampled_from(kinds))
    if k == 'overloads':
        # an overloaded function: overloads before the implementation, sometimes one more after it (too late: reported and skipped),
        # sometimes no implementation at all, sometimes other decorators around @overload
        name = draw(st.sampled_from(['f', 'g', 'ov']))
        me = 'self, ' if ctx == 'class' else ''
        spell = draw(st.sampled_from(['overload', 'overload', 'typing.overload', 't.overload']))
        out = ['from typing import overload', 'import typing', 'import typing as t']

        def one(ann: str) -> List[str]:
            decos = ['@' + spell]
            extra = draw(st.sampled_from([None, None, None, 'staticmethod', 'classmethod', 'functools.wraps(g)', 'd[0]']))
            if extra:
                decos = (decos + ['@' + extra]) if draw(st.booleans()) else (['@' + extra] + decos)
            return decos + ['def %s(%sa: %s) -> %s: ...' % (name, me, ann, ann)]
        for ann in draw(st.lists(st.sampled_from(['int', 'str', '"C"', 'bytes', 'None']), min_size=1, max_size=3)):
            out += one(ann)
        if draw(st.integers(0, 4)) > 0:
            out += ['def %s(%sa):' % (name, me)] + _ind(_docstring(draw(st.sampled_from(DOCS)), draw(st.integers(0, 9))) + ['return a'])
            if draw(st.integers(0, 2)) == 0:
                out += one('float')
                if draw(st.booleans()):
                    out += ['class After:', '    def meth(self): pass', 'def after(): pass']
        return out
    if k == 'oldschool':
        # a method that is wrapped after its definition, once or several times, possibly on top of a decorator
        name = draw(st.sampled_from(['f', 'g', 'm', 'x']))
        deco = draw(st.sampled_from([[], [], ['@staticmethod'], ['@classmethod'], ['@property'], ['@overload']]))
        out = deco + ['def %s(%s):' % (name, draw(_params(True))), '    pass']
        for _ in range(draw(st.integers(1, 3))):
            out.append('%s = %s(%s)' % (name, draw(st.sampled_from(['staticmethod', 'classmethod', 'staticmethod', 'property'])), name))
        return out
    if k == 'special':
        if ctx == 'class' and draw(st.booleans()):
            return [draw(st.sampled_from(CLASS_SPECIAL))]
        return [draw(st.sampled_from(SPECIAL_ASSIGN))]
    if k == 'import':
        return [draw(st.sampled_from(IMPORTS))]
    if k == 'assign':
        tgt = draw(st.sampled_from(NAMES + ['UPPER', 'self.v', 'C.cv', 'x.y.z']))
        ann = (': ' + draw(st.sampled_from(EXPRS))) if draw(st.integers(0, 3)) == 0 else ''
        if ann and draw(st.integers(0, 3)) == 0:
            return ['%s%s' % (tgt, ann)]
        return ['%s%s = %s' % (tgt, ann, draw(st.sampled_from(EXPRS)))]
    if k == 'attrdoc':
        tgt = draw(st.sampled_from(['x', 'y', 'UPPER', 'self.v', '_p']))
        return ['%s = %s' % (tgt, draw(st.sampled_from(EXPRS)))] + _docstring(draw(st.sampled_from(DOCS)), draw(st.integers(0, 9)))
    if k == 'func':
        decos = ['@' + d for d in draw(st.lists(st.sampled_from(DECOS), max_size=2))]
        name = draw(st.sampled_from(['f', 'g', 'x', 'm', '__init__', '__new__', '_p', 'C']))
        head = '%sdef %s(%s)%s:' % ('async ' if draw(st.integers(0, 5)) == 0 else '', name, draw(_params(ctx == 'class')),
                                   (' -> ' + draw(st.sampled_from(EXPRS))) if draw(st.integers(0, 2)) == 0 else '')
        body: List[str] = []
        if draw(st.booleans()):
            body += _docstring(draw(st.sampled_from(DOCS)), draw(st.integers(0, 9)))
        for _ in range(draw(st.integers(0, 2))):
            body += draw(_stmt(depth + 1, 'function'))
        if not body:
            body = ['pass']
        return decos + [head] + _ind(body)
    if k in ('class', 'deco_class'):
        decos = ['@' + d for d in draw(st.lists(st.sampled_from(DECOS), min_size=(1 if k == 'deco_class' else 0), max_size=2))]
        bases = draw(st.lists(st.sampled_from(['Base', 'dep.Base', 'B', 'C', 'D', 'object', 'Exception', 'ValueError', 'Interface', 'interface.Interface', 'I', 'Generic[T]', 'List[int]',
                                                'nothere', 'a.b.c', 'f()', 'lambda: 0', '*bases', 'x[0]', 'metaclass=M', '**kw', 'E', 'mod.C', 'typing.NamedTuple', 'Alias']), max_size=3, unique=True))
        bases = [b for b in bases if '=' not in b and not b.startswith('**')] + [b for b in bases if '=' in b] + [b for b in bases if b.startswith('**')]
        name = draw(st.sampled_from(['C', 'D', 'E', 'I', 'Base', 'f', '_P']))
        head = 'class %s%s:' % (name, ('(' + ', '.join(bases) + ')') if bases or draw(st.booleans()) else '')
        body = []
        if draw(st.booleans()):
            body += _docstring(draw(st.sampled_from(DOCS)), draw(st.integers(0, 9)))
        stmts = [draw(_stmt(depth + 1, 'class')) for _ in range(draw(st.integers(0, 4)))]
        body += _with_repeats(draw, stmts)
        if not body:
            body = ['pass']
        return decos + [head] + _ind(body)
    # control flow
    c = draw(st.sampled_from(['if', 'ifelse', 'main', 'tc', 'try', 'trystar', 'with', 'for', 'while', 'match', 'ifelif']))
    inner = []
    for _ in range(draw(st.integers(1, 2))):
        inner += draw(_stmt(depth + 1, ctx))
    other = draw(_stmt(depth + 1, ctx))
    if c == 'if':
        return ['if %s:' % draw(st.sampled_from(['True', 'x', 'sys.version_info > (3,)', 'not x']))] + _ind(inner)
    if c == 'ifelse':
        return ['if x:'] + _ind(inner) + ['else:'] + _ind(other)
    if c == 'ifelif':
        return ['if x:'] + _ind(inner) + ['elif y:'] + _ind(other) + ['else:'] + _ind(['pass'])
    if c == 'main':
        return ['if %s:' % draw(st.sampled_from(["__name__ == '__main__'", '__name__ == "__main__"', "'__main__' == __name__", "__name__ != '__main__'"]))] + _ind(inner)
    if c == 'tc':
        return ['if %s:' % draw(st.sampled_from(['TYPE_CHECKING', 'typing.TYPE_CHECKING', 't.TYPE_CHECKING']))] + _ind(inner)
    if c == 'try':
        return ['try:'] + _ind(inner) + ['except (ImportError, x.Err) as e:'] + _ind(other) + (['else:'] + _ind(['pass']) if draw(st.booleans()) else []) + (['finally:'] + _ind(other) if draw(st.booleans()) else [])
    if c == 'trystar':
        return ['try:'] + _ind(inner) + ['except* ValueError:'] + _ind(other)
    if c == 'with':
        return ['%swith %s:' % ('async ' if ctx == 'function' and draw(st.booleans()) else '', draw(st.sampled_from(['ctx', 'open(f) as fh', 'a as (b, c), d'])))] + _ind(inner)
    if c == 'for':
        return ['for %s in %s:' % (draw(st.sampled_from(['i', 'i, j', 'self.x'])), draw(st.sampled_from(['(0,)', 'x', 'range(3)'])))] + _ind(inner) + (['else:'] + _ind(other) if draw(st.booleans()) else [])
    if c == 'while':
        return ['while x:'] + _ind(inner)
    return ['match x:'] + _ind(['case [a, *rest] if a:'] + _ind(inner) + ['case {"k": v} | C(y=1):'] + _ind(other) + ['case _:'] + _ind(['pass']))


def _with_repeats(draw: Any, stmts: List[List[str]]) -> List[str]:
    """The statements in order; now and then one of them is written a second time further down (a redefinition, a second
    wrapping in staticmethod(), a second assignment to __all__ or __doc__ ...)."""
    out = list(stmts)
    if stmts and draw(st.integers(0, 2)) == 0:
        for _ in range(draw(st.integers(1, 2))):
            i = draw(st.integers(0, len(out) - 1))
            out.insert(draw(st.integers(i + 1, len(out))), out[i])
    return [line for stmt in out for line in stmt]


@st.composite
def modules(draw: Any, min_stmts: int = 1, max_stmts: int = 8) -> str:
    lines: List[str] = []
    if draw(st.integers(0, 2)) > 0:
        lines += _docstring(draw(st.sampled_from(DOCS)), draw(st.integers(0, 9)))
    for _ in range(draw(st.integers(0, 3))):
        lines.append(draw(st.sampled_from(IMPORTS)))
    stmts = [draw(_stmt(0, 'module')) for _ in range(draw(st.integers(min_stmts, max_stmts)))]
    lines += _with_repeats(draw, stmts)
    return '\n'.join(lines) + '\n'


# ---------------------------------------------------------------- size class (recursion-hungry but legal)

def big_sources() -> List[str]:
    out = []
    for n in (50, 200, 900, 3000):
        out.append('X = ' + '+'.join(['1'] * n) + '\n')
        out.append('X = ' + 'a' + '.b' * n + '\n')
        out.append('X = ' + '[' * min(n, 90) + ']' * min(n, 90) + '\n')
        out.append('X = ' + '-' * n + '1\n')
        out.append('X = ' + 'f(' * min(n, 90) + ')' * min(n, 90) + '\n')
        out.append('def f(a=' + '+'.join(['1'] * n) + '): pass\n')
        out.append('if a: pass\n' + ''.join('elif a%d: pass\n' % i for i in range(n)))
        out.append("X = '" + 'x' * (n * 40) + "'\n")
        out.append('"""' + 'L{' * n + '}' * n + '"""\n')
        out.append('"""' + '- x\n' + ''.join(' ' * (2 * i) + '- x\n' for i in range(1, min(n, 200))) + '"""\n')
    for n in (10, 20, 50):
        out.append(''.join('    ' * i + 'class C%d:\n' % i for i in range(n)) + '    ' * n + 'x = 1\n')
        out.append(''.join('    ' * i + 'if a%d:\n' % i for i in range(n)) + '    ' * n + 'x = 1\n')
    return out


# ---------------------------------------------------------------- real corpus + mutators

def real_files(repo: str) -> List[str]:
    out = []
    for root, dirs, files in os.walk(os.path.join(repo, 'pydoctor')):
        dirs.sort()
        for f in sorted(files):
            if f.endswith('.py'):
                out.append(os.path.join(root, f))
    for extra in ('docs/epytext_demo', 'docs/restructuredtext_demo', 'docs/google_demo', 'docs/numpy_demo'):
        d = os.path.join(repo, extra)
        if os.path.isdir(d):
            for f in sorted(os.listdir(d)):
                if f.endswith('.py'):
                    out.append(os.path.join(d, f))
    return out


TOKEN_POOL = ['(', ')', '[', ']', '{', '}', ':', ',', '=', '*', '**', '@', 'def', 'class', 'import', 'from', 'lambda', 'yield', 'await', 'async', '"""', "'", '\\', '\t', '\x0c', '\x00',
              'None', 'self', '__all__', '__doc__', '.', '...', '->', ':=', 'if', 'else', 'try', 'except', 'pass', '#', '\ufeff', '\u00e9', 'L{', '}', '`', '::', '@param']


@st.composite
def mutated(draw: Any, texts: List[str]) -> str:
    src = draw(st.sampled_from(texts))
    lines = src.split('\n')
    if len(lines) > 120:
        start = draw(st.integers(0, len(lines) - 100))
        lines = lines[start:start + draw(st.integers(20, 100))]
    for _ in range(draw(st.integers(1, 4))):
        if not lines:
            break
        op = draw(st.sampled_from(['del', 'dup', 'swap', 'tok', 'trunc', 'splice', 'dedent', 'indent']))
        i = draw(st.integers(0, len(lines) - 1))
        if op == 'del':
            del lines[i]
        elif op == 'dup':
            lines.insert(i, lines[i])
        elif op == 'swap':
            j = draw(st.integers(0, len(lines) - 1))
            lines[i], lines[j] = lines[j], lines[i]
        elif op == 'tok':
            l = lines[i]
            p = draw(st.integers(0, len(l)))
            lines[i] = l[:p] + draw(st.sampled_from(TOKEN_POOL)) + l[p + draw(st.integers(0, 3)):]
        elif op == 'trunc':
            l = lines[i]
            lines = lines[:i] + [l[:draw(st.integers(0, len(l)))]]
        elif op == 'splice':
            other = draw(st.sampled_from(texts)).split('\n')
            j = draw(st.integers(0, max(0, len(other) - 1)))
            lines[i:i] = other[j:j + draw(st.integers(1, 8))]
        elif op == 'dedent':
            lines[i] = lines[i].lstrip()
        elif op == 'indent':
            lines[i] = '    ' + lines[i]
    return '\n'.join(lines) + '\n'
