"""Expression generators for C14/C15: exhaustive shallow trees, operator chains, random deep trees.

Everything is produced as *source text* of an expression that ast.parse accepts; the AST pydoctor sees is
the parse of that text (exactly what it would get from a source file).
"""
from __future__ import annotations

import ast
import itertools
from typing import Any, Callable, Iterator, List, Sequence, Tuple

LEAVES = ['a', '1', "'s'"]

UNARY = ['-', '+', '~', 'not ']
BINARY = ['+', '-', '*', '/', '//', '%', '**', '<<', '>>', '|', '^', '&', '@']
BOOL = [' and ', ' or ']
CMP = ['==', '!=', '<', '<=', '>', '>=', ' is ', ' is not ', ' in ', ' not in ']

# A form is (name, arity, builder) where builder takes child texts (already parenthesised as needed by P())


def P(t: str) -> str:
    """Children are always wrapped in parentheses in the *source*: the AST has no parentheses, so this only
    makes sure the source means the intended tree whatever the child is."""
    return '(' + t + ')'


def forms() -> List[Tuple[str, int, Callable[..., str]]]:
    F: List[Tuple[str, int, Callable[..., str]]] = []
    for op in UNARY:
        F.append(('unary' + op.strip(), 1, lambda x, op=op: op + P(x)))
    for op in BINARY:
        F.append(('bin' + op, 2, lambda x, y, op=op: P(x) + op + P(y)))
    for op in BOOL:
        F.append(('bool' + op.strip(), 2, lambda x, y, op=op: P(x) + op + P(y)))
        F.append(('bool3' + op.strip(), 3, lambda x, y, z, op=op: P(x) + op + P(y) + op + P(z)))
    for op in CMP:
        F.append(('cmp' + op.strip(), 2, lambda x, y, op=op: P(x) + op + P(y)))
    F.append(('cmpchain', 3, lambda x, y, z: P(x) + ' < ' + P(y) + ' <= ' + P(z)))
    F.append(('ifexp', 3, lambda x, y, z: P(x) + ' if ' + P(y) + ' else ' + P(z)))
    F.append(('lambda0', 1, lambda x: 'lambda: ' + P(x)))
    F.append(('lambda-args', 2, lambda x, y: 'lambda p, q=' + P(x) + ', *r, k=' + P(y) + ', **kw: p'))
    F.append(('call0', 1, lambda f: P(f) + '()'))
    F.append(('call-pos', 3, lambda f, x, y: P(f) + '(' + P(x) + ', ' + P(y) + ')'))
    F.append(('call-kw', 3, lambda f, x, y: P(f) + '(' + P(x) + ', k=' + P(y) + ')'))
    F.append(('call-star', 3, lambda f, x, y: P(f) + '(*' + P(x) + ', **' + P(y) + ')'))
    F.append(('call-kwonly', 2, lambda f, x: P(f) + '(k=' + P(x) + ')'))
    F.append(('sub-index', 2, lambda v, i: P(v) + '[' + P(i) + ']'))
    F.append(('sub-slice', 3, lambda v, i, j: P(v) + '[' + P(i) + ':' + P(j) + ']'))
    F.append(('sub-slice-step', 3, lambda v, i, j: P(v) + '[' + P(i) + '::' + P(j) + ']'))
    F.append(('sub-slice-open', 1, lambda v: P(v) + '[:]'))
    F.append(('sub-tuple', 3, lambda v, i, j: P(v) + '[' + P(i) + ', ' + P(j) + ']'))
    F.append(('sub-tuple1', 2, lambda v, i: P(v) + '[' + P(i) + ',]'))
    F.append(('sub-tuple-slice', 3, lambda v, i, j: P(v) + '[' + P(i) + ':, ' + P(j) + ']'))
    F.append(('attr', 1, lambda v: P(v) + '.attr'))
    F.append(('list0', 0, lambda: '[]'))
    F.append(('list1', 1, lambda x: '[' + P(x) + ']'))
    F.append(('list2', 2, lambda x, y: '[' + P(x) + ', ' + P(y) + ']'))
    F.append(('tuple0', 0, lambda: '()'))
    F.append(('tuple1', 1, lambda x: '(' + P(x) + ',)'))
    F.append(('tuple2', 2, lambda x, y: '(' + P(x) + ', ' + P(y) + ')'))
    F.append(('set1', 1, lambda x: '{' + P(x) + '}'))
    F.append(('set2', 2, lambda x, y: '{' + P(x) + ', ' + P(y) + '}'))
    F.append(('dict0', 0, lambda: '{}'))
    F.append(('dict1', 2, lambda k, v: '{' + P(k) + ': ' + P(v) + '}'))
    F.append(('dict-star', 3, lambda k, v, d: '{' + P(k) + ': ' + P(v) + ', **' + P(d) + '}'))
    F.append(('list-starred', 2, lambda x, y: '[*' + P(x) + ', ' + P(y) + ']'))
    F.append(('tuple-starred', 1, lambda x: '(*' + P(x) + ',)'))
    F.append(('listcomp', 3, lambda e, it, c: '[' + P(e) + ' for i in ' + P(it) + ' if ' + P(c) + ']'))
    F.append(('setcomp', 2, lambda e, it: '{' + P(e) + ' for i in ' + P(it) + '}'))
    F.append(('dictcomp', 3, lambda k, v, it: '{' + P(k) + ': ' + P(v) + ' for i in ' + P(it) + '}'))
    F.append(('genexp', 2, lambda e, it: '(' + P(e) + ' for i, j in ' + P(it) + ')'))
    F.append(('await', 1, lambda x: 'await ' + P(x)))
    F.append(('yield', 1, lambda x: '(yield ' + P(x) + ')'))
    F.append(('yieldfrom', 1, lambda x: '(yield from ' + P(x) + ')'))
    F.append(('walrus', 1, lambda x: '(w := ' + P(x) + ')'))
    F.append(('fstring', 1, lambda x: "f'pre{" + P(x) + "}post'"))
    F.append(('fstring-conv', 2, lambda x, y: "f'{" + P(x) + "!r:>{" + P(y) + "}}'"))
    return F


def valid(text: str) -> bool:
    try:
        ast.parse(text, mode='eval')
        return True
    except (SyntaxError, ValueError):
        return False


def depth1(leaves: Sequence[str] = LEAVES) -> Iterator[Tuple[str, str]]:
    """(label, text) for every form applied to every combination of leaves."""
    for name, ar, b in forms():
        for kids in itertools.product(leaves, repeat=ar):
            t = b(*kids)
            if valid(t):
                yield name, t


def depth1_single_leaf(leaf: str = 'a') -> List[Tuple[str, str]]:
    return [(n, t) for n, t in depth1([leaf])]


def depth2(reduced: bool) -> Iterator[Tuple[str, str]]:
    """Every form with a depth-1 tree in one child slot and leaves elsewhere.
    reduced: inner trees over the single leaf `a`, other slots `b`; full: inner trees over all leaves and other
    slots over all leaves."""
    inner = depth1_single_leaf('a') if reduced else list(depth1())
    other = ['b'] if reduced else LEAVES
    for name, ar, b in forms():
        if ar == 0:
            continue
        for slot in range(ar):
            for iname, itext in inner:
                for rest in itertools.product(other, repeat=ar - 1):
                    kids = list(rest[:slot]) + [itext] + list(rest[slot:])
                    t = b(*kids)
                    if valid(t):
                        yield '%s[%d]<-%s' % (name, slot, iname), t


OPS: List[Tuple[str, int]] = [(o, 1) for o in UNARY] + [(o, 2) for o in BINARY] + [(o, 2) for o in BOOL] + [(o, 2) for o in CMP]


def _apply(op: Tuple[str, int], inner: str, pos: int, filler: str) -> str:
    o, ar = op
    if ar == 1:
        return o + P(inner)
    return (P(inner) + o + filler) if pos == 0 else (filler + o + P(inner))


def chains3() -> Iterator[Tuple[str, str]]:
    """op1(op2(op3(leaves))) with the inner operation in every child position."""
    for o3 in OPS:
        base3 = _apply(o3, 'a', 0, 'b') if o3[1] == 2 else _apply(o3, 'a', 0, '')
        for o2 in OPS:
            for p2 in range(o2[1]):
                mid = _apply(o2, base3, p2, 'c')
                for o1 in OPS:
                    for p1 in range(o1[1]):
                        t = _apply(o1, mid, p1, 'd')
                        yield '%s/%d(%s/%d(%s))' % (o1[0].strip(), p1, o2[0].strip(), p2, o3[0].strip()), t


LITERALS = [
    '0', '1', '-1', '0x1F', '0o17', '0b101', '1_000_000', str(2 ** 70), '1.0', '1.5e300', '1e-7', '.5', '1e999', '-0.0', '2j', '1.5j', '1e999j',
    'True', 'False', 'None', '...', "''", "'a'", '"it\'s"', "'say \"hi\"'", "'back\\\\slash'", "'new\\nline'", "'tab\\there'", "'\\r\\x0b\\x0c'", "'\\x00nul'", "'\\x1b[0m'",
    "'\\x7f\\x80\\xa0'", "'\\u00e9\\u4e2d'", "'\\U0001F600'", "'\\ud800'", "'<b>&amp;</b>'", "'''tri\nple'''", "'a' 'b'", "r'\\d+'", "u'uni'", "'" + 'x' * 100 + "'",
    "b''", "b'bytes'", "b'\\xff\\x00\\n'", "b'it\\'s'", "b'\"'", "rb'\\d'", "'\\\\'", "'\\''", "'%s %d'", "'{}'", "'a\\\nb'",
]


def st_expr(max_depth: int = 4):
    """Random deeper trees (hypothesis strategy yielding source text)."""
    from hypothesis import strategies as st
    F = [f for f in forms() if f[1] >= 1]
    leaf = st.sampled_from(LEAVES + ['b', 'x.y', 'f', 'T'] + LITERALS)

    def extend(children):
        def build(args):
            (name, ar, b), kids = args
            return b(*kids[:ar])
        return st.tuples(st.sampled_from(F), st.lists(children, min_size=3, max_size=3)).map(build)
    return st.recursive(leaf, extend, max_leaves=12).filter(valid)
