"""Projects built to exercise every producer of links and listings (C10, C11, C12, C17, C18):
inheritance across modules, inherited docstrings whose cross-references point at siblings of the base member,
overrides, re-exports from a private module, superseded duplicate definitions, nested classes, private and dunder
names, non-ASCII identifiers, interfaces, constants, decorators, cross-references in every docformat, and privacy
rules aimed at exactly those objects."""
from __future__ import annotations

from typing import Any, Dict, List

from hypothesis import strategies as st

XREF = {
    'epytext': lambda t: 'L{%s}' % t,
    'restructuredtext': lambda t: '`%s`' % t,
    'google': lambda t: '`%s`' % t,
    'numpy': lambda t: '`%s`' % t,
    'plaintext': lambda t: t,
}

RULES = ['pkg.base', 'pkg.base.Base', 'pkg.base.Base.m', 'pkg.base.Base.other', 'pkg.base.helper', 'pkg.sub.Sub', 'pkg.sub.Sub.m', 'pkg.sub.Sub.Inner', 'pkg.sub', 'pkg._impl',
         'pkg.Impl', 'pkg._impl.Impl', 'pkg', '**.Inner', '**._*', '**.m', '**.other', '**.CONST', 'pkg.sub.*', 'pkg.*.Base', '**.dup', '**.I', 'pkg.sub.Third', '**.__init__', 'pkg.base.*', 'pkg.deep', 'pkg.deep.**', 'pkg.__main__', 'pkg.__main__.*', 'pkg.shape']


@st.composite
def projects(draw: Any) -> Dict[str, Any]:
    fmt = draw(st.sampled_from(['epytext', 'epytext', 'restructuredtext', 'google', 'numpy', 'plaintext']))
    x = XREF[fmt]
    f = {k: draw(st.booleans()) for k in ['reexport', 'dup', 'nonascii', 'nested', 'iface', 'override', 'inherit_doc', 'private', 'const', 'deep', 'xref_hidden', 'second_root', 'alias_base', 'prop', 'samename', 'multi_iface', 'dunder_main', 'caseclash', 'star_reexport', 'sections']}
    # docstrings with section titles: the sidebar shows their table of contents (on the object's own page, and that of the parent when
    # the sidebar is expanded), the titles link back to its entries
    sect = '\n\nSection One\n===========\n\ntext one\n\nSection Two\n===========\n\ntext two\n' if f['sections'] and fmt != 'plaintext' else ''
    csect = sect.replace('\n', '\n    ')
    base: List[str] = ['"""Base module, see %s.%s"""' % (x('Base'), sect)]
    base += ['class Base:', '    """Base class. See %s and %s.%s"""' % (x('helper'), x('Base.other'), csect)]
    base += ['    def m(self, a=None):', '        """Method m, see %s and %s and %s."""' % (x('other'), x('helper'), x('Base'))]
    base += ['    def other(self):', '        """Other, see %s."""' % x('m')]
    if f['prop']:
        base += ['    @property', '    def p(self):', '        """Property, see %s."""' % x('other')]
    if f['const']:
        base += ['    CONST = ("<b>", 1)', '    """Constant, see %s."""' % x('m')]
    base += ['def helper(x: "Base" = None) -> "Base":', '    """Helper, see %s."""' % x('Base.m')]
    if f['dup']:
        base += ['def dup():', '    """first dup, see %s"""' % x('helper'), 'def dup():', '    """second dup"""',
                 'class Dup:', '    def inner(self): pass', 'class Dup:', '    """second Dup, see %s"""' % x('Dup.late'), '    def late(self): pass']
    if f['iface']:
        base += ['from zope.interface import Interface, implementer', 'class I(Interface):', '    """Iface."""', '    def im():', '        """im doc"""',
                 '@implementer(I)', 'class Impl2:', '    def im(self):', '        pass']
    sub: List[str] = ['"""Sub module."""']
    if f['alias_base']:
        sub += ['from . import base as b', 'from .base import helper', 'Base = b.Base']
    else:
        sub += ['from .base import Base, helper']
    sub += ['class Sub(Base):', '    """Sub class of %s."""' % x('Base')]
    if f['override']:
        sub += ['    def m(self, a=None):'] + (['        pass'] if f['inherit_doc'] else ['        """Overridden m, see %s."""' % x('Base.m')])
    sub += ['    def own(self):', '        """Own, see %s and %s."""' % (x('m'), x('other'))]
    if f['nested']:
        sub += ['    class Inner:', '        """Nested, see %s."""' % x('Sub.own'), '        def deepest(self):', '            """see %s"""' % x('Inner')]
    if f['private']:
        sub += ['    def _priv(self):', '        """private method"""', '    def __dunder__(self):', '        """dunder"""', 'class _Hidden(Base):', '    """private class"""',
                'class Third(_Hidden):', '    """inherits from a private class, see %s"""' % x('_Hidden.m'), '    def other(self): pass']
    if f['nonascii']:
        sub += ['class Ünï(Base):', '    """non-ascii class"""', '    def méth(self):', '        """see %s"""' % x('Ünï'), 'def fünc(): pass']
    init: List[str] = ['"""Package, see %s.%s"""' % (x('pkg.base.Base'), sect)]
    files = {'pkg/__init__.py': '', 'pkg/base.py': '\n'.join(base) + '\n', 'pkg/sub.py': '\n'.join(sub) + '\n'}
    if f['reexport']:
        # the re-exported function has annotations, a default and a docstring that name things which stay behind in _impl
        files['pkg/_impl.py'] = ('"""impl"""\nfrom typing import TypeVar, Union\nfrom .base import Base\nNum = Union[int, float]\n"""a type alias"""\nT = TypeVar("T")\nDEFAULT = 1\n"""a constant"""\n'
                                 'def helper2():\n    """stays in _impl"""\nclass Impl(Base):\n    """Re-exported, see %s."""\n    def work(self):\n        """see %s"""\n'
                                 'def util(a: "Num" = DEFAULT, b: T = None, c: "Base" = None) -> "Num":\n    """util, see %s and %s"""\n' % (x('Base'), x('Impl'), x('helper2'), x('Num')))
        init += ['from ._impl import Impl, util', "__all__ = ['Impl', 'util']"]
        files['pkg/user.py'] = 'from pkg._impl import Impl\nfrom pkg import util\nclass User(Impl):\n    """see %s and %s"""\n' % (x('pkg._impl.Impl'), x('pkg.Impl'))
    if f['deep']:
        files['pkg/deep/__init__.py'] = '"""deep pkg"""\n'
        files['pkg/deep/leaf.py'] = 'from ..sub import Sub\nclass Leaf(Sub):\n    """leaf, see %s"""\n    def other(self):\n        pass\n' % x('Sub.own')
    files['pkg/__init__.py'] = '\n'.join(init) + '\n'
    if f['samename']:
        # objects whose short name equals the name of the root package
        files['pkg/pkg.py'] = ('"""module named like its package, see %s"""\nfrom .base import Base\nclass pkg(Base):\n    """class named like the root, see %s"""\n'
                               '    def m(self, a=None):\n        pass\ndef helper2():\n    """see %s"""\n' % (x('pkg.base.helper'), x('helper2'), x('pkg')))
    if f['multi_iface']:
        files['pkg/ifaces.py'] = (
            'from zope.interface import Interface, implementer\n'
            'class IReader(Interface):\n    def close():\n        """close of IReader"""\n    def read():\n        """read"""\n'
            'class IWriter(Interface):\n    def close():\n        """close of IWriter"""\n'
            'class ISeek(Interface):\n    def close():\n        """close of ISeek"""\n'
            'class IBuf(Interface):\n    def close():\n        """close of IBuf"""\n'
            '@implementer(IReader)\nclass R:\n    pass\n@implementer(IWriter)\nclass W:\n    pass\n@implementer(ISeek, IBuf)\nclass S:\n    pass\n'
            'class Stream(R, W, S):\n    """inherits four interfaces"""\n    def close(self):\n        pass\n    def read(self):\n        pass\n'
            'class Stream2(S):\n    """inherits two interfaces from one base"""\n    def close(self):\n        pass\n'
            '@implementer(IWriter, IReader, IBuf)\nclass Tri:\n    pass\nclass Stream3(Tri):\n    def close(self):\n        pass\n'
            # interfaces whose names differ only by case, one of them declared twice: wherever they are listed, the order is a function
            # of the source
            'class IUrl(Interface):\n    def get():\n        """get of IUrl"""\nclass IURL(Interface):\n    def get():\n        """get of IURL"""\nclass Iurl(Interface):\n    pass\n'
            '@implementer(IUrl, IURL, Iurl, IUrl)\nclass Page:\n    def get(self):\n        pass\n@implementer(Iurl, IURL)\nclass Page2(Page):\n    def get(self):\n        pass\n')
    if f['star_reexport']:
        # several names brought in by one star import of a module without __all__ and re-exported together: the order in which
        # they are moved must not depend on the iteration order of a set
        files['pkg/_star.py'] = ('"""star source, see %s"""\nfrom .base import Base\nclass Alpha(Base):\n    """alpha, see %s"""\nclass Bravo(Alpha):\n    """bravo"""\n    def m(self, a=None):\n        pass\n'
                                 'class Charlie(Bravo):\n    """charlie"""\nclass Delta(Base):\n    """delta"""\ndef echo():\n    """echo"""\nFOXTROT = 1\n"""foxtrot"""\n' % (x('Alpha'), x('Bravo')))
        init += ['from ._star import *']
        allnames = ['Alpha', 'Bravo', 'Charlie', 'Delta', 'echo', 'FOXTROT']
        if any(l.startswith('__all__') for l in init):
            init[:] = [(l[:-1] + ', ' + ', '.join(repr(n) for n in allnames) + ']') if l.startswith('__all__') else l for l in init]
        else:
            init += ['__all__ = [%s]' % ', '.join(repr(n) for n in allnames)]
        files['pkg/__init__.py'] = '\n'.join(init) + '\n'
    if f['dunder_main']:
        # a module named __main__ is private whatever its name looks like
        files['pkg/__main__.py'] = ('"""entry point, see %s"""\nfrom .base import Base\nclass Runner(Base):\n    """runner"""\n    def run(self):\n        """see %s"""\n'
                                    'def entry():\n    """entry"""\n' % (x('pkg.base.Base'), x('entry')))
    if f['caseclash']:
        # sibling modules whose names differ only by case (valid on a case-sensitive file system)
        files['pkg/Shape.py'] = '"""Shape module"""\nfrom .base import Base\nclass Upper(Base):\n    """upper, see %s"""\n' % x('Base')
        files['pkg/shape.py'] = '"""shape module"""\nfrom .base import Base\nclass Lower(Base):\n    """lower, see %s"""\ndef shape_fn():\n    """fn"""\n' % x('Base')
    roots = ['pkg']
    if f['second_root']:
        files['other.py'] = 'from pkg.base import Base\nclass O(Base):\n    """see %s"""\n' % x('pkg.sub.Sub')
        roots.append('other.py')
    args = ['--docformat=' + fmt]
    for lv, pat in draw(st.lists(st.tuples(st.sampled_from(['HIDDEN', 'HIDDEN', 'PRIVATE', 'PUBLIC']), st.sampled_from(RULES)), max_size=3)):
        args.append('--privacy=%s:%s' % (lv, pat))
    th = draw(st.sampled_from(['classic', 'classic', 'readthedocs', 'base']))
    if th != 'classic':
        args.append('--theme=' + th)
    depth = draw(st.sampled_from([None, None, 2, 3]))
    if depth:
        args.append('--sidebar-expand-depth=%d' % depth)
    if draw(st.integers(0, 5)) == 0:
        args.append('--no-sidebar')
    if draw(st.booleans()):
        args.append('--project-name=proj')
    return {'files': files, 'roots': roots, 'args': args, 'features': sorted(k for k, v in f.items() if v)}
