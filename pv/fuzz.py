"""Coverage-guided stage (atheris / libFuzzer), thorough tier only.

    python -m pv.fuzz <target> <workdir> <seconds> <seed>

The semantic oracle of the property runs inside the target; a discrepancy that is not an open known finding is written
to <workdir>/finding.json (the reproducible unit) and the process aborts.  Campaigns are only approximately pinned by
-seed; the saved input is what is replayed.
"""
from __future__ import annotations

import json
import os
import sys


def main() -> int:
    target, workdir, seconds, seed = sys.argv[1], sys.argv[2], int(sys.argv[3]), int(sys.argv[4])
    deps = os.environ.get('VERIF_DEPS')
    if deps and deps not in sys.path:
        sys.path.insert(0, deps)
    import atheris
    with atheris.instrument_imports(include=['pydoctor']):
        import pydoctor.astbuilder  # noqa: F401
        import pydoctor.driver  # noqa: F401
        import pydoctor.epydoc.markup.epytext  # noqa: F401
        import pydoctor.epydoc.markup.restructuredtext  # noqa: F401
        import pydoctor.epydoc.markup.google  # noqa: F401
        import pydoctor.epydoc.markup.numpy  # noqa: F401
        import pydoctor.epydoc2stan  # noqa: F401
        import pydoctor.sphinx  # noqa: F401
    from . import findings
    os.makedirs(os.path.join(workdir, 'corpus'), exist_ok=True)
    stats = {'execs': 0, 'excluded': 0}

    def report(prop: str, case, discrepancies) -> None:
        for sig, msg in discrepancies:
            if findings.is_open(prop, sig):
                stats['excluded'] += 1
                continue
            with open(os.path.join(workdir, 'finding.json'), 'w') as fh:
                json.dump({'property': prop, 'sig': sig, 'msg': msg, 'case': case}, fh)
            raise RuntimeError('VIOLATION %s %s' % (prop, sig))

    if target == 'c17':
        from .props import c17

        def one(data: bytes) -> None:
            stats['execs'] += 1
            fdp = atheris.FuzzedDataProvider(data)
            mode = fdp.ConsumeIntInRange(0, 2)
            rest = fdp.ConsumeBytes(fdp.remaining_bytes())
            import zlib
            if mode == 0:
                blob = rest
            elif mode == 1:
                blob = c17.HEADER + zlib.compress(rest)
            else:
                good = b'keep.me py:class 1 keep.html -\n'
                blob = c17.HEADER + zlib.compress(good + rest + b'\nalso.keep py:function 1 a.html#$ -\n')
            case = {'kind': 'robust', 'hex': blob.hex(), 'intact': [], 'container': None, 'ops': ['atheris'], 'damaged': 1}
            if mode == 2 and b'\r' not in rest and all(c not in rest for c in (b'\x0b', b'\x0c', b'\x1c', b'\x1d', b'\x1e', b'\x85')):
                try:
                    rest.decode('utf-8')
                    case['intact'] = [['keep.me', 'py:class', '1', 'keep.html', '-']]
                    case['container'] = 'ok'
                except UnicodeDecodeError:
                    pass
            report('C17', case, c17.check_robust(case))
        seeds = [b'\x02a py:class 1 a.html -\n', b'\x01name with space py:method -1 x.html#$ Display Name\n', b'\x00garbage']
    elif target == 'c08':
        from .props import c08
        fmts = c08.DOCFORMATS

        def one(data: bytes) -> None:
            stats['execs'] += 1
            fdp = atheris.FuzzedDataProvider(data)
            fmt = fmts[fdp.ConsumeIntInRange(0, len(fmts) - 1)]
            pt = fdp.ConsumeBool()
            doc = fdp.ConsumeUnicode(fdp.remaining_bytes())
            case = {'doc': doc, 'fmt': fmt, 'pt': pt}
            report('C08', case, c08.check_case(case)[0])
        seeds = [b'\x00\x00L{x} @param a: b\n@type a: C{int}', b'\x01\x01:param a: `x`\n\n.. note:: n', b'\x02\x00Args:\n    a (int): b\n', b'\x03\x00Parameters\n----------\na : int\n    b\n']
    elif target == 'c01':
        from .props import c02
        from .sysutil import build, render_page

        def one(data: bytes) -> None:
            stats['execs'] += 1
            try:
                src = data.decode('utf-8')
            except UnicodeDecodeError:
                return
            if '\x00' in src:
                return
            try:
                s = build([('dep', None, False, 'class Base:\n    def m(self): pass\nX = 1\n'), ('mod', None, False, src)])
                for o in list(s.allobjects.values()):
                    from pydoctor import model
                    if isinstance(o, (model.Module, model.Class)) and o.isVisible:
                        render_page(o)
            except RecursionError:
                return  # F03 (deep nesting) is a recorded finding
            except BaseException as e:
                if isinstance(e, (KeyboardInterrupt, SystemExit, MemoryError)):
                    raise
                import traceback
                from .run import innermost_pydoctor_frame
                sig = 'crash:%s@%s' % (type(e).__name__, innermost_pydoctor_frame(e.__traceback__))
                report('C01', {'files': {'mod.py': src, 'dep.py': 'class Base:\n    def m(self): pass\nX = 1\n'}, 'roots': ['mod.py', 'dep.py'], 'args': [], 'meta': False},
                       [(sig, traceback.format_exc()[-1500:])])
                return
            report('C02', {'kind': 'project', 'mods': [['dep', None, False, 'class Base:\n    def m(self): pass\nX = 1\n'], ['mod', None, False, src]], 'order': None}, c02.invariants(s, True))
        from .gen import pysource
        seeds = [s.encode() for s in ['class C(Base):\n    """L{C}"""\n    def f(self, a: "int" = 1): pass\n', 'from dep import *\n__all__ = ["Base"]\n', '@property\ndef f(): pass\nx: int = 1\n"""d"""\n']]
    elif target == 'c15':
        import ast as _ast
        from .props import c15

        def one(data: bytes) -> None:
            stats['execs'] += 1
            if len(data) < 2:
                return
            mode_b = data[0]
            try:
                src = data[1:].decode('utf-8')
            except UnicodeDecodeError:
                return
            if '\x00' in src or '\n' in src or '\r' in src:
                return
            try:
                tree = _ast.parse(src, mode='eval')
            except (SyntaxError, ValueError, RecursionError, MemoryError):
                return
            nodes = list(_ast.walk(tree))
            if len(nodes) > 60:
                return
            if any(isinstance(x, _ast.Call) and getattr(x.func, 'attr', getattr(x.func, 'id', '')) == 'compile' for x in nodes):
                return  # re.compile(...) is displayed as a (normalised) regular expression: the regex sub-check's business
            mode = 'inline' if mode_b % 3 == 0 else c15.SETTINGS[mode_b % len(c15.SETTINGS)]
            try:
                d = c15.check_text(src, mode)
            except RecursionError:
                return
            report('C15', {'text': src, 'mode': mode if mode == 'inline' else list(mode)}, d)
        seeds = [b'\x00' + s.encode() for s in ['a+b*(c-d)', 'f(a, *b, k=1, **c)[1:2, ::3]', "{'k': [1, (2,), {3}], **d}", 'lambda x, /, y=1, *a, z, **k: (yield)', "x if not y else -z ** 2 @ w",
                                               "[i async for i in a if i]", "f'{a!r:>{w}}' b'c'", 'a < b <= c is not d in e', '(a := 1, *b)', "a.b(c)(d).e[f]"]]
    else:
        print('unknown target', target)
        return 2
    for i, s in enumerate(seeds):
        with open(os.path.join(workdir, 'corpus', 'seed%d' % i), 'wb') as fh:
            fh.write(s)
    argv = [sys.argv[0], '-max_total_time=%d' % seconds, '-seed=%d' % (seed or 1), '-max_len=400', '-timeout=60', '-rss_limit_mb=4096',
            '-print_final_stats=1', '-artifact_prefix=' + os.path.join(workdir, 'artifact-'), os.path.join(workdir, 'corpus')]
    atheris.Setup(argv, one)
    try:
        atheris.Fuzz()
    finally:
        with open(os.path.join(workdir, 'stats.json'), 'w') as fh:
            json.dump(stats, fh)
    return 0


if __name__ == '__main__':
    sys.exit(main())
