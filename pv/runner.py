"""./check <ID> [--tier quick|thorough] [--replay FILE] [--jobs N]

exit 0: property held on everything explored (KNOWN-FINDING lines possible)
exit 1: VIOLATION property=<id> replay=<path>
exit 2: harness error (never reported as a violation)
"""
from __future__ import annotations

import argparse
import glob
import importlib
import json
import multiprocessing
import os
import sys
import time
import traceback
from typing import Any, Dict, List, Tuple

from . import findings
from .core import Acc, HOME, REPO, chash, jdump, ncpu, run_guarded, trunc


def _work(args: Tuple[str, Any]) -> Acc:
    modname, item = args
    mod = importlib.import_module(modname)
    return run_guarded(lambda: mod.work(item))


def _replay_child(args: Tuple[str, Any]) -> Any:
    modname, case = args
    mod = importlib.import_module(modname)
    try:
        return [list(d) for d in mod.replay(case)]
    except BaseException:
        return {"error": traceback.format_exc()}


def replay_fresh(modname: str, case: Any) -> Any:
    """Run mod.replay(case) in a fresh process so leaked global state cannot matter."""
    ctx = multiprocessing.get_context("fork")
    with ctx.Pool(1, maxtasksperchild=1) as pool:
        return pool.apply(_replay_child, ((modname, case),))


def write_replay(prop: str, v: Dict[str, Any], seed: int, tier: str) -> str:
    d = os.path.join(HOME, "replays", prop)
    os.makedirs(d, exist_ok=True)
    body = {"property": prop, "sig": v.get("sig"), "explanation": v.get("msg"), "case": v.get("case"),
            "seed": seed, "tier": tier}
    path = os.path.join(d, "%s_%s.json" % (str(v.get("sig", "x")).replace("/", "_").replace(" ", "_")[:60], chash(v.get("case"))))
    with open(path, "w") as fh:
        fh.write(json.dumps(body, indent=1, ensure_ascii=True, default=repr))
    return os.path.relpath(path, HOME)


def write_evidence(prop: str, mod: Any, acc: Acc, tier: str, seed: int, wall: float, nviol: int) -> None:
    cov: Dict[str, Any] = {
        "evaluations": acc.evals,
        "distinct_nontrivial": acc.distinct_nontrivial,
        "rule": mod.RULE,
        "samples": acc.samples,
        "classes": dict(sorted(acc.classes.items())),
        "excluded_known": dict(sorted(acc.excluded.items())),
        "inconclusive": acc.inconclusive,
        "exhaustive": bool(acc.exhaustive_parts) and getattr(mod, "ALL_EXHAUSTIVE", False),
        "exhaustive_parts": acc.exhaustive_parts,
    }
    cov.update({k: v for k, v in acc.notes.items()})
    ev = {
        "property_id": prop, "tier": tier, "seed": seed, "level": "exploration",
        "coverage": cov, "assumptions": list(getattr(mod, "ASSUMPTIONS", [])),
        "wall_s": round(wall, 2), "violations": nviol,
        "repo": REPO,
    }
    # evidence/ describes /repo only; a run against a scratch copy (VERIF_REPO, used for seeded changes) goes aside
    edir = os.path.join(HOME, "evidence") if os.path.realpath(REPO) == os.path.realpath("/repo") else os.path.join(HOME, "replays", "scratch-evidence")
    os.makedirs(edir, exist_ok=True)
    with open(os.path.join(edir, prop + ".json"), "w") as fh:
        fh.write(json.dumps(ev, indent=1, ensure_ascii=True, default=repr) + "\n")


def main(argv: List[str]) -> int:
    ap = argparse.ArgumentParser()
    ap.add_argument("prop")
    ap.add_argument("--tier", default=os.environ.get("VERIF_TIER", "quick"), choices=["quick", "thorough"])
    ap.add_argument("--replay")
    ap.add_argument("--jobs", type=int, default=int(os.environ.get("VERIF_JOBS", "0")) or ncpu())
    ap.add_argument("--scale", type=float, default=float(os.environ.get("VERIF_SCALE", "1")))
    ns = ap.parse_args(argv)
    os.environ['VERIF_TIER_EFFECTIVE'] = 'replay' if ns.replay else ns.tier   # read by property modules at import (bounds that differ by tier)
    prop = ns.prop.upper()
    try:
        seed = int(os.environ.get("VERIF_SEED", "1"))
    except ValueError:
        seed = 1
    modname = "pv.props." + prop.lower()
    try:
        mod = importlib.import_module(modname)
    except Exception:
        traceback.print_exc()
        print("HARNESS-ERROR property=%s cannot import check module" % prop)
        return 2

    if ns.replay:
        with open(ns.replay) as fh:
            body = json.load(fh)
        case = body["case"] if isinstance(body, dict) and "case" in body else body
        res = replay_fresh(modname, case)
        if isinstance(res, dict):
            print(res["error"])
            return 2
        bad = [d for d in res if not findings.is_open(prop, d[0])]
        for sig, msg in res:
            print("%s %s: %s" % ("known" if findings.is_open(prop, sig) else "DISCREPANCY", sig, msg))
        if bad:
            print("VIOLATION property=%s replay=%s" % (prop, ns.replay))
            return 1
        print("replay: property held on this case")
        return 0

    t0 = time.time()
    total = Acc()
    violations: List[Dict[str, Any]] = []

    # 1. replay tier: committed corpus (shrunk failures, fixed findings)
    corpus = sorted(glob.glob(os.path.join(HOME, "corpus", prop, "*.json")))
    pinned_fixed = [(e["finding"], e["pinned"]) for e in findings.entries(prop, "fixed") if "pinned" in e]
    replays = [(os.path.relpath(p, HOME), json.load(open(p))) for p in corpus]
    replays = [(n, (b["case"] if isinstance(b, dict) and "case" in b else b)) for n, b in replays]
    replays += [("known_findings.json#" + fid, c) for fid, c in pinned_fixed]
    nreplayed = 0
    for name, case in replays:
        res = replay_fresh(modname, case)
        nreplayed += 1
        if isinstance(res, dict):
            total.errors.append("replay %s: %s" % (name, res["error"]))
            continue
        for sig, msg in res:
            if not findings.is_open(prop, sig):
                violations.append({"sig": sig, "msg": msg, "case": case, "origin": name})
                break
    total.notes["replayed_corpus_cases"] = nreplayed

    # 2. generated search
    items = mod.plan(ns.tier, seed, ns.scale) if not violations else []
    if items:
        ctx = multiprocessing.get_context("fork")
        jobs = max(1, min(ns.jobs, len(items)))
        with ctx.Pool(jobs, maxtasksperchild=getattr(mod, "MAXTASKS", None)) as pool:
            for acc in pool.imap_unordered(_work, [(modname, it) for it in items]):
                total.merge(acc)

    if total.errors:
        for e in total.errors[:3]:
            print(e)
        write_evidence(prop, mod, total, ns.tier, seed, time.time() - t0, 0)
        print("HARNESS-ERROR property=%s (%d errors)" % (prop, len(total.errors)))
        return 2

    # 3. confirm each candidate violation by a library-free replay in a fresh process
    seen = set()
    for v in total.violations:
        if v["sig"] in seen:
            continue
        res = replay_fresh(modname, v["case"])
        if isinstance(res, dict):
            print(res["error"])
            print("HARNESS-ERROR property=%s replay of candidate failed" % prop)
            return 2
        conf = [d for d in res if not findings.is_open(prop, d[0])]
        if conf:
            seen.add(v["sig"])
            v = dict(v)
            v["sig"], v["msg"] = conf[0][0], conf[0][1]
            violations.append(v)
        else:
            total.notes.setdefault("unconfirmed_candidates", []).append(trunc(v, 400))
    if total.notes.get("unconfirmed_candidates"):
        # a candidate that a fresh process does not reproduce (a time limit hit under load, state of the search process)
        # is inconclusive: recorded in the evidence, never reported as a violation
        n_unc = len(total.notes["unconfirmed_candidates"])
        total.inconclusive += n_unc
        print("INCONCLUSIVE: property=%s %d candidate(s) did not reproduce in a fresh process: %s" % (
            prop, n_unc, jdump(total.notes["unconfirmed_candidates"])[:600]))

    # 4. open known findings: pinned inputs still failing are printed, nothing else is suppressed
    for e in findings.entries(prop, "open"):
        if "pinned" not in e:
            continue
        res = replay_fresh(modname, e["pinned"])
        if isinstance(res, dict):
            print(res["error"])
            print("HARNESS-ERROR property=%s pinned finding %s cannot be replayed" % (prop, e["finding"]))
            return 2
        if any(d[0] == e["sig"] for d in res):
            print("KNOWN-FINDING: property=%s %s [%s] %s" % (prop, e["finding"], e["sig"], e["what"]))
        else:
            print("note: pinned input of open finding %s [%s] no longer fails" % (e["finding"], e["sig"]))
        for sig, msg in res:
            if not findings.is_open(prop, sig):
                violations.append({"sig": sig, "msg": msg, "case": e["pinned"], "origin": "pinned " + e["finding"]})

    wall = time.time() - t0
    write_evidence(prop, mod, total, ns.tier, seed, wall, len(violations))
    print("%s tier=%s seed=%d evaluations=%d distinct_nontrivial=%d excluded_known=%s wall=%.1fs" % (
        prop, ns.tier, seed, total.evals, total.distinct_nontrivial, dict(total.excluded), wall))
    if violations:
        for v in violations:
            path = write_replay(prop, v, seed, ns.tier)
            print("  %s: %s" % (v["sig"], trunc(v["msg"], 1500)))
            print("VIOLATION property=%s replay=%s" % (prop, path))
        return 1
    return 0


if __name__ == "__main__":
    sys.exit(main(sys.argv[1:]))
