"""In-memory pydoctor systems built from source strings, with recorded messages."""
from __future__ import annotations

import contextlib
import io
from typing import Any, Dict, Iterable, List, Optional, Sequence, Tuple


def make_system(args: Sequence[str] = (), base: Any = None) -> Any:
    """A System whose msg() calls are recorded in .msgs as (section, text, thresh)."""
    from pydoctor import model
    from pydoctor.options import Options
    base = base or model.System

    class RecSystem(base):  # type: ignore
        def __init__(self, options: Any = None) -> None:
            self.msgs: List[Tuple[str, str, int]] = []
            super().__init__(options)

        def msg(self, section: str, msg: str, thresh: int = 0, topthresh: int = 100, nonl: bool = False,
                wantsnl: bool = True, once: bool = False) -> None:
            if once and (section, msg) in self.once_msgs:
                return
            self.msgs.append((section, msg, thresh))
            with contextlib.redirect_stdout(io.StringIO()):
                super().msg(section, msg, thresh, topthresh, nonl, wantsnl, once)

    opts = Options.from_args(list(args)) if args else None
    s = RecSystem(opts)
    if opts is None:
        s.options.verbosity = 0
    return s


def build(mods: Iterable[Tuple[str, Optional[str], bool, str]], args: Sequence[str] = (), system: Any = None,
          process: bool = True) -> Any:
    """mods: (name, parent_fullname or None, is_package, source), parents first."""
    s = system or make_system(args)
    b = s.systemBuilder(s)
    for name, parent, ispkg, src in mods:
        b.addModuleString(src, name, parent_name=parent, is_package=ispkg)
    if process:
        with contextlib.redirect_stdout(io.StringIO()):
            b.buildModules()
    return s


def files_to_mods(files: Dict[str, str]) -> List[Tuple[str, Optional[str], bool, str]]:
    """{'pkg/__init__.py': src, 'pkg/a.py': src, 'top.py': src} -> ordered mods list (packages first)."""
    mods: List[Tuple[str, Optional[str], bool, str]] = []
    items = []
    for rel, src in files.items():
        parts = rel[:-3].split('/')
        if parts[-1] == '__init__':
            parts = parts[:-1]
            ispkg = True
        else:
            ispkg = False
        items.append((len(parts), not ispkg, parts, ispkg, src))
    # parents before children; within one package the package itself (its __init__) first, then the
    # listing order pydoctor's addPackage uses: sorted by path name
    items.sort(key=lambda t: (t[0], t[2]))
    for _d, _np, parts, ispkg, src in items:
        mods.append((parts[-1], '.'.join(parts[:-1]) or None, ispkg, src))
    return mods


_lookup: Dict[str, Any] = {}


def template_lookup(theme: str = 'base') -> Any:
    if theme not in _lookup:
        import importlib.resources as ir
        from pydoctor.templatewriter import TemplateLookup
        tl = TemplateLookup(ir.files('pydoctor.themes') / 'base')
        if theme != 'base':
            tl.add_templatedir(ir.files('pydoctor.themes') / theme)
        _lookup[theme] = tl
    return _lookup[theme]


def render_page(ob: Any, theme: str = 'base') -> str:
    """The page of a module/package/class as the writer would produce it."""
    from pathlib import Path
    from pydoctor import templatewriter
    wr = templatewriter.TemplateWriter(Path(), template_lookup(theme))
    f = io.BytesIO()
    with contextlib.redirect_stdout(io.StringIO()):
        wr._writeDocsForOne(ob, f)
    return f.getvalue().decode()
