"""Running pydoctor on a generated source tree, in-process (driver.main) or as a child process."""
from __future__ import annotations

import contextlib
import io
import os
import shutil
import signal
import subprocess
import sys
import tempfile
import traceback
from typing import Any, Dict, Iterator, List, Optional, Sequence, Tuple, Union

from .core import PY, REPO, reset_pydoctor_globals


class Timeout(BaseException):
    pass


def scratch_root() -> str:
    d = os.environ.get("VERIF_SCRATCH")
    if d:
        os.makedirs(d, exist_ok=True)
        return d
    if os.path.isdir("/dev/shm") and os.access("/dev/shm", os.W_OK):
        return "/dev/shm"
    return tempfile.gettempdir()


def write_tree(base: str, files: Dict[str, Union[str, bytes]]) -> None:
    for rel, content in files.items():
        p = os.path.join(base, rel)
        os.makedirs(os.path.dirname(p), exist_ok=True)
        if isinstance(content, str):
            content = content.encode("utf-8", "surrogatepass")
        with open(p, "wb") as fh:
            fh.write(content)


class Result:
    def __init__(self) -> None:
        self.code: Optional[int] = None
        self.exc: Optional[BaseException] = None
        self.tb: str = ""
        self.frame: str = ""  # innermost pydoctor frame "module.function"
        self.stdout = ""
        self.stderr = ""
        self.system: Any = None
        self.src = ""
        self.out = ""
        self.timeout = False


def innermost_pydoctor_frame(tb: Any) -> str:
    best = "?"
    for fs in traceback.extract_tb(tb):
        fn = fs.filename.replace("\\", "/")
        if "/pydoctor/" in fn and "/site-packages/" not in fn:
            best = "%s.%s" % (fn.split("/pydoctor/", 1)[1][:-3].replace("/", "."), fs.name)
    return best


@contextlib.contextmanager
def pydoctor_run(files: Dict[str, Union[str, bytes]], roots: Sequence[str], args: Sequence[str] = (),
                 timeout: int = 0, make_html: bool = True, outdir_name: str = "out") -> Iterator[Result]:
    """driver.main() in-process on a scratch tree.  The tree is removed when the context exits."""
    from pydoctor import driver
    reset_pydoctor_globals()
    base = tempfile.mkdtemp(prefix="pv_", dir=scratch_root())
    res = Result()
    res.src = os.path.join(base, "src")
    res.out = os.path.join(base, outdir_name)
    os.makedirs(res.src)
    write_tree(res.src, files)
    argv = list(args)
    if make_html:
        argv += ["--html-output=" + res.out]
    argv += [os.path.join(res.src, r) for r in roots]
    captured: List[Any] = []
    orig_get_system = driver.get_system

    def get_system(options: Any) -> Any:
        # capture the System as soon as it exists, also when building fails later
        orig_cls = options.systemclass

        def factory(opts: Any) -> Any:
            s = orig_cls(opts)
            captured.append(s)
            return s
        options.systemclass = factory
        try:
            return orig_get_system(options)
        finally:
            options.systemclass = orig_cls

    def on_alarm(signum: int, frame: Any) -> None:
        raise Timeout()

    so, se = io.StringIO(), io.StringIO()
    cwd = os.getcwd()
    old_handler = None
    old_limit = sys.getrecursionlimit()
    try:
        os.chdir(base)
        driver.get_system = get_system
        if timeout:
            old_handler = signal.signal(signal.SIGALRM, on_alarm)
            signal.alarm(timeout)
        try:
            with contextlib.redirect_stdout(so), contextlib.redirect_stderr(se):
                res.code = driver.main(argv)
        except Timeout:
            res.timeout = True
        except SystemExit as e:
            res.code = e.code if isinstance(e.code, int) else 1
            res.exc = None
        except BaseException as e:
            res.exc = e
            res.tb = traceback.format_exc()
            res.frame = innermost_pydoctor_frame(e.__traceback__)
        finally:
            if timeout:
                signal.alarm(0)
                if old_handler is not None:
                    signal.signal(signal.SIGALRM, old_handler)
        res.stdout, res.stderr = so.getvalue(), se.getvalue()
        res.system = captured[-1] if captured else None
        yield res
    finally:
        driver.get_system = orig_get_system
        sys.setrecursionlimit(old_limit)
        os.chdir(cwd)
        shutil.rmtree(base, ignore_errors=True)


def pydoctor_child(srcdir: str, roots: Sequence[str], outdir: str, args: Sequence[str] = (),
                   env: Optional[Dict[str, Any]] = None, timeout: int = 300, cwd: Optional[str] = None) -> Tuple[int, str, str]:
    """`python -m pydoctor` as a separate process (C18, byte identity needs fresh global counters)."""
    e = dict(os.environ)
    for k, v in (env or {}).items():
        if v is None:
            e.pop(k, None)
        else:
            e[k] = v
    argv = [PY, "-m", "pydoctor"] + list(args) + ["--html-output=" + outdir] + [os.path.join(srcdir, r) for r in roots]
    p = subprocess.run(argv, env=e, cwd=cwd or srcdir, capture_output=True, text=True, timeout=timeout, errors="replace")
    return p.returncode, p.stdout, p.stderr
