"""Shared plumbing: accumulators, violation type, hypothesis driver, case hashing."""
from __future__ import annotations

import collections
import hashlib
import json
import os
import sys
import traceback
from typing import Any, Callable, Dict, Iterable, List, Optional, Tuple

HOME = os.environ.get("VERIF_HOME") or os.path.dirname(os.path.dirname(os.path.abspath(__file__)))
REPO = os.environ.get("VERIF_REPO", "/repo")
PY = os.environ.get("VERIF_PY", "/venv/bin/python")


def jdump(obj: Any) -> str:
    return json.dumps(obj, sort_keys=True, ensure_ascii=True, default=repr)


def chash(obj: Any) -> str:
    if not isinstance(obj, str):
        obj = jdump(obj)
    return hashlib.sha1(obj.encode("utf-8", "surrogatepass")).hexdigest()[:14]


def trunc(obj: Any, n: int = 600) -> Any:
    s = obj if isinstance(obj, str) else jdump(obj)
    if len(s) <= n:
        return obj
    return s[:n] + "...[%d chars]" % len(s)


class Violation(Exception):
    """Raised by a property body for a discrepancy that is not a listed open finding."""

    def __init__(self, sig: str, msg: str, case: Any):
        super().__init__("%s: %s" % (sig, msg))
        self.sig = sig
        self.msg = msg
        self.case = case

    def as_dict(self) -> Dict[str, Any]:
        return {"sig": self.sig, "msg": self.msg, "case": self.case}


class HarnessError(Exception):
    pass


class Acc:
    """What one work item (or the merged run) covered."""

    MAX_SAMPLES = 6

    def __init__(self) -> None:
        self.evals = 0
        self.nontrivial: set = set()  # hashes of distinct non-trivial cases
        self.nontrivial_counted = 0  # distinct by construction (disjoint enumeration)
        self.samples: List[Any] = []
        self.classes: collections.Counter = collections.Counter()
        self.excluded: collections.Counter = collections.Counter()
        self.violations: List[Dict[str, Any]] = []
        self.errors: List[str] = []
        self.inconclusive = 0
        self.notes: Dict[str, Any] = {}
        self.exhaustive_parts: List[str] = []

    def case(self, key: Any = None, nontrivial: bool = True, sample: Any = None,
             classes: Iterable[str] = (), distinct_by_construction: bool = False) -> None:
        self.evals += 1
        if nontrivial:
            if distinct_by_construction:
                self.nontrivial_counted += 1
            else:
                self.nontrivial.add(chash(key))
        for c in classes:
            self.classes[c] += 1
        if sample is not None and len(self.samples) < self.MAX_SAMPLES:
            self.samples.append(trunc(sample))

    def merge(self, other: "Acc") -> None:
        self.evals += other.evals
        self.nontrivial |= other.nontrivial
        self.nontrivial_counted += other.nontrivial_counted
        for s in other.samples:
            if len(self.samples) < self.MAX_SAMPLES:
                self.samples.append(s)
        self.classes.update(other.classes)
        self.excluded.update(other.excluded)
        self.violations.extend(other.violations)
        self.errors.extend(other.errors)
        self.inconclusive += other.inconclusive
        for k, v in other.notes.items():
            if isinstance(v, (int, float)) and isinstance(self.notes.get(k, 0), (int, float)):
                self.notes[k] = self.notes.get(k, 0) + v
            else:
                self.notes.setdefault(k, v)
        for p in other.exhaustive_parts:
            if p not in self.exhaustive_parts:
                self.exhaustive_parts.append(p)

    @property
    def distinct_nontrivial(self) -> int:
        return len(self.nontrivial) + self.nontrivial_counted


def judge(prop: str, acc: Acc, case: Any, discrepancies: Iterable[Tuple[str, str]]) -> None:
    """check -> classify -> decide (DESIGN 2.6).  Discrepancies whose signature is an
    open known finding are counted and the search goes on; anything else raises."""
    from . import findings
    for sig, msg in discrepancies:
        if findings.is_open(prop, sig):
            acc.excluded[sig] += 1
        else:
            raise Violation(sig, msg, case)


def hyp_run(acc: Acc, strategy: Any, body: Callable[[Any], None], max_examples: int, seed: int,
            shrink: bool = True, stateful_step_count: Optional[int] = None) -> None:
    """Drive `body` with seeded hypothesis; a Violation is shrunk and recorded in acc."""
    import hypothesis
    from hypothesis import HealthCheck, Phase, given, settings

    phases = [Phase.generate, Phase.target]
    if shrink:
        phases.append(Phase.shrink)
    last: Dict[str, Violation] = {}

    def test(case: Any) -> None:
        try:
            body(case)
        except Violation as v:
            last["v"] = v
            raise

    st = settings(max_examples=max_examples, database=None, deadline=None, derandomize=False,
                  report_multiple_bugs=False, phases=phases, print_blob=False,
                  suppress_health_check=list(HealthCheck), verbosity=hypothesis.Verbosity.quiet)
    t = hypothesis.seed(seed)(st(given(strategy)(test)))
    try:
        t()
    except Violation:
        acc.violations.append(last["v"].as_dict())
    except hypothesis.errors.Flaky:
        if "v" in last:
            d = last["v"].as_dict()
            d["flaky"] = True
            acc.violations.append(d)
        else:
            raise


def run_guarded(fn: Callable[[], Acc]) -> Acc:
    try:
        return fn()
    except BaseException:  # harness error: reported, never a VIOLATION
        a = Acc()
        a.errors.append(traceback.format_exc())
        return a


def shard_counts(total: int, nshards: int) -> List[int]:
    base, rem = divmod(total, nshards)
    return [base + (1 if i < rem else 0) for i in range(nshards)]


def ncpu() -> int:
    try:
        return max(1, min(16, len(os.sched_getaffinity(0))))
    except Exception:
        return max(1, min(16, os.cpu_count() or 1))


def reset_pydoctor_globals() -> None:
    """State that leaks between in-process runs."""
    try:
        from pydoctor.templatewriter.pages import table
        if hasattr(table.ChildTable, "last_id"):
            table.ChildTable.last_id = 0
    except Exception:
        pass


def run_fuzz_item(prop: str, target: str, seconds: int, seed: int) -> Acc:
    """One coverage-guided worker (atheris subprocess).  Returns its counters and at most one violation."""
    import json as _json
    import re
    import shutil
    import subprocess
    import tempfile
    acc = Acc()
    deps = os.environ.get("VERIF_DEPS", os.path.join(HOME, ".deps"))
    try:
        chk = subprocess.run([PY, "-c", "import sys; sys.path.insert(0, %r); import atheris" % deps], capture_output=True)
        if chk.returncode != 0:
            acc.notes["atheris"] = "not installed; coverage-guided stage skipped"
            return acc
    except Exception:
        acc.notes["atheris"] = "not installed; coverage-guided stage skipped"
        return acc
    from .run import scratch_root
    wd = tempfile.mkdtemp(prefix="pv_fuzz_", dir=scratch_root())
    try:
        env = dict(os.environ)
        env["VERIF_DEPS"] = deps
        p = subprocess.run([PY, "-m", "pv.fuzz", target, wd, str(seconds), str(seed)], cwd=HOME, env=env,
                           capture_output=True, text=True, errors="replace", timeout=seconds + 600)
        m = re.search(r"stat::number_of_executed_units:\s*(\d+)", p.stderr)
        execs = int(m.group(1)) if m else 0
        acc.evals += execs
        # libFuzzer does not tell how many inputs were distinct; the corpus it kept is a lower bound of distinct, coverage-increasing inputs
        corpus = os.path.join(wd, "corpus")
        kept = 0
        if os.path.isdir(corpus):
            for f in os.listdir(corpus):
                kept += 1
                with open(os.path.join(corpus, f), "rb") as fh:
                    acc.nontrivial.add(chash(fh.read().hex()))
        acc.classes["atheris-executions"] += execs
        acc.classes["atheris-corpus-kept"] += kept
        if len(acc.samples) < 2:
            acc.samples.append({"atheris_target": target, "executions": execs, "corpus_inputs_kept": kept, "seconds": seconds})
        fj = os.path.join(wd, "finding.json")
        if os.path.exists(fj):
            with open(fj) as fh:
                f = _json.load(fh)
            if f.get("property") == prop:
                acc.violations.append({"sig": f["sig"], "msg": f["msg"], "case": f["case"]})
            else:
                acc.notes.setdefault("other_property_candidates", []).append({"property": f.get("property"), "sig": f.get("sig"), "case": trunc(f.get("case"), 800)})
        elif p.returncode != 0 and execs == 0:
            acc.errors.append("atheris worker failed: %s" % p.stderr[-800:])
    finally:
        shutil.rmtree(wd, ignore_errors=True)
    return acc
