"""O-HTML: strict reader + crawler for an output directory.

Every *.html is parsed with a strict XML parser (after mapping characters that are illegal in XML 1.0 to
U+FFFD: the "set aside" clause of C10).  From the DOM we collect: element/attribute vocabulary, the structural
sequence, anchors (id, name), links (href, src, the url field of all-documents.html) with the chain of enclosing
listing containers, and listing entries.  Relative links are resolved as a browser would: split the fragment,
percent-decode path and fragment, follow symlinks.
"""
from __future__ import annotations

import os
import re
import xml.dom.minidom
from typing import Any, Dict, Iterator, List, Optional, Set, Tuple
from urllib.parse import unquote, urlsplit

_ILLEGAL = re.compile('[\x00-\x08\x0b\x0c\x0e-\x1f￾￿]')


class Page:
    def __init__(self, name: str) -> None:
        self.name = name
        self.error: Optional[str] = None
        self.dom: Any = None
        self.anchors: Set[str] = set()
        self.links: List[Dict[str, Any]] = []
        self.vocab: Set[Tuple[str, str]] = set()      # (element, attribute) and (element, '')
        self.seq: List[Tuple[str, Tuple[str, ...]]] = []
        self.entries: List[Dict[str, Any]] = []       # listing entries
        self.illegal_chars = 0


def read_page(path: str, name: str) -> Page:
    pg = Page(name)
    with open(path, 'rb') as fh:
        raw = fh.read()
    try:
        text = raw.decode('utf-8')
    except UnicodeDecodeError as e:
        pg.error = 'not UTF-8: %s' % e
        return pg
    pg.illegal_chars = len(_ILLEGAL.findall(text))
    text = _ILLEGAL.sub('�', text)
    try:
        pg.dom = xml.dom.minidom.parseString(text.encode('utf-8'))
    except Exception as e:
        pg.error = 'not well-formed: %s' % e
        # context of the error for the report
        m = re.search(r'line (\d+), column (\d+)', str(e))
        if m:
            lines = text.split('\n')
            ln = int(m.group(1)) - 1
            if 0 <= ln < len(lines):
                col = int(m.group(2))
                pg.error += ' near %r' % lines[ln][max(0, col - 60):col + 60]
        return pg
    _walk(pg, pg.dom.documentElement, [])
    return pg


LISTING = {'tr': 'table-row', 'li': 'list-item'}


def _classes(el: Any) -> List[str]:
    return el.getAttribute('class').split() if el.hasAttribute('class') else []


def _walk(pg: Page, el: Any, ctx: List[Any]) -> None:
    tag = el.tagName
    attrs = sorted(el.attributes.keys()) if el.attributes else []
    pg.vocab.add((tag, ''))
    for a in attrs:
        pg.vocab.add((tag, a))
    # docutils wraps words of an inline literal in <span class="pre"> depending on their characters: formatting
    # inside a literal, not structure
    if not (tag == 'span' and el.getAttribute('class') in ('pre', 'rst-pre')):
        pg.seq.append((tag, tuple(attrs)))
    for a in ('id', 'name'):
        if el.hasAttribute(a) and tag != 'meta' and tag != 'input':
            pg.anchors.add(el.getAttribute(a))
    for a in ('href', 'src'):
        if el.hasAttribute(a):
            pg.links.append({'attr': a, 'value': el.getAttribute(a), 'tag': tag, 'ctx': [(c.tagName, _classes(c), c.getAttribute('id')) for c in ctx[-8:]],
                             'title': el.getAttribute('title') if el.hasAttribute('title') else None, 'classes': _classes(el)})
    if tag == 'div' and 'url' in _classes(el) and pg.name == 'all-documents.html':
        pg.links.append({'attr': 'url', 'value': _text(el).strip(), 'tag': 'div', 'ctx': [(c.tagName, _classes(c), c.getAttribute('id')) for c in ctx[-4:]], 'title': None, 'classes': []})
    ctx.append(el)
    for c in el.childNodes:
        if c.nodeType == c.ELEMENT_NODE:
            _walk(pg, c, ctx)
    ctx.pop()


def _text(node: Any) -> str:
    if node.nodeType == node.TEXT_NODE:
        return node.data
    return ''.join(_text(c) for c in node.childNodes)


def read_dir(outdir: str) -> Dict[str, Page]:
    pages: Dict[str, Page] = {}
    for f in sorted(os.listdir(outdir)):
        p = os.path.join(outdir, f)
        if f.endswith('.html') and os.path.isfile(p) and not os.path.islink(p):
            pages[f] = read_page(p, f)
    return pages


def resolve(outdir: str, page: str, value: str) -> Tuple[Optional[str], Optional[str], bool]:
    """(target file name relative to outdir or None for external, fragment or None, is_internal)"""
    try:
        u = urlsplit(value)
    except ValueError:
        return None, None, False
    if u.scheme or u.netloc or value.startswith('//'):
        return None, None, False
    path = unquote(u.path)
    frag = unquote(u.fragment) if u.fragment else None
    if path == '':
        return page, frag, True
    return os.path.normpath(path), frag, True


def dead_links(outdir: str, pages: Dict[str, Page]) -> Iterator[Tuple[str, Dict[str, Any], str]]:
    """(page, link, why) for every internal link that does not lead to an existing file / anchor."""
    for name, pg in pages.items():
        if pg.dom is None:
            continue
        for l in pg.links:
            target, frag, internal = resolve(outdir, name, l['value'])
            if not internal or target is None:
                continue
            full = os.path.join(outdir, target)
            if not os.path.exists(full):
                yield name, l, 'file %r does not exist' % target
                continue
            if frag is not None and target.endswith('.html'):
                real = os.path.basename(os.path.realpath(full))
                tp = pages.get(real) or pages.get(target)
                if tp is not None and tp.dom is not None and frag not in tp.anchors:
                    yield name, l, 'no anchor %r in %s' % (frag, target)


def listing_entries(pg: Page) -> List[Dict[str, Any]]:
    """Rows of child tables, member-detail divs, sidebar items, index items: each with its class list and the links
    it contains."""
    out: List[Dict[str, Any]] = []
    if pg.dom is None:
        return out

    def links_in(el: Any) -> List[str]:
        """hrefs inside el, not descending into nested listing entries (li / tr)"""
        found: List[str] = []

        def rec(n: Any) -> None:
            for c in n.childNodes:
                if c.nodeType != c.ELEMENT_NODE:
                    continue
                if c.tagName in ('li', 'tr'):
                    continue
                if c.tagName == 'a' and c.hasAttribute('href'):
                    found.append(c.getAttribute('href'))
                rec(c)
        rec(el)
        return found

    for tr in pg.dom.getElementsByTagName('tr'):
        par = tr.parentNode
        while par is not None and getattr(par, 'tagName', None) != 'table':
            par = par.parentNode
        if par is not None and 'children' in _classes(par):
            out.append({'kind': 'table-row', 'classes': _classes(tr), 'links': links_in(tr)[:1]})
    for div in pg.dom.getElementsByTagName('div'):
        cl = _classes(div)
        if any(c.startswith('base') for c in cl) and div.parentNode is not None and getattr(div.parentNode, 'getAttribute', lambda x: '')('id') == 'childList':
            names = [a.getAttribute('name') for a in div.getElementsByTagName('a') if a.hasAttribute('name')]
            out.append({'kind': 'member-detail', 'classes': cl, 'anchors': names, 'links': []})
    for li in pg.dom.getElementsByTagName('li'):
        anc = li.parentNode
        in_sidebar = False
        while anc is not None and anc.nodeType == anc.ELEMENT_NODE:
            if 'sidebar' in _classes(anc):
                in_sidebar = True
            anc = anc.parentNode
        if in_sidebar:
            item = [d for d in li.childNodes if d.nodeType == d.ELEMENT_NODE and 'itemName' in _classes(d)]
            out.append({'kind': 'sidebar-item', 'classes': _classes(li), 'links': links_in(item[0])[:1] if item else links_in(li)[:1]})
        elif pg.name in ('moduleIndex.html', 'index.html'):
            # the module index: nested <ul> of modules and packages
            direct = links_in(li)
            if direct and li.parentNode is not None and getattr(li.parentNode, 'tagName', '') == 'ul':
                out.append({'kind': 'index-item', 'classes': _classes(li), 'links': [direct[0]]})
        elif pg.name == 'classIndex.html':
            # the class hierarchy: an entry stands for the class and for the subclasses nested below it
            direct = links_in(li)
            if direct and li.parentNode is not None and getattr(li.parentNode, 'tagName', '') == 'ul':
                out.append({'kind': 'classindex-item', 'classes': _classes(li), 'links': [direct[0]]})
    return out
