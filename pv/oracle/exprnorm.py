"""O-EXPR: "same expression".

Two texts denote the same expression when their ASTs are equal after applying only the documented
spelling changes: set literal shown as set([...]); constants compared by type and value (so quote style,
numeric formatting, implicit concatenation vanish); redundant parentheses (not in the AST).
Everything else - grouping, tuple-ness, argument order, starred-ness, keyword names - must be equal.
"""
from __future__ import annotations

import ast
from typing import Any, Optional


class _Norm(ast.NodeTransformer):
    def visit_Call(self, node: ast.Call) -> Any:
        self.generic_visit(node)
        if (isinstance(node.func, ast.Name) and node.func.id == 'set' and len(node.args) == 1 and not node.keywords
                and isinstance(node.args[0], ast.List) and node.args[0].elts):
            return ast.Set(elts=node.args[0].elts)
        return node

    def visit_Constant(self, node: ast.Constant) -> Any:
        return ast.Constant(value=node.value)  # drops `kind`

    def visit_JoinedStr(self, node: ast.JoinedStr) -> Any:
        self.generic_visit(node)
        # merge adjacent constant parts, drop empty ones
        vals = []
        for v in node.values:
            if isinstance(v, ast.Constant) and isinstance(v.value, str):
                if v.value == '':
                    continue
                if vals and isinstance(vals[-1], ast.Constant):
                    vals[-1] = ast.Constant(value=vals[-1].value + v.value)
                    continue
            vals.append(v)
        return ast.JoinedStr(values=vals)


def norm_dump(tree: ast.AST) -> str:
    t = _Norm().visit(tree)
    return ast.dump(t, annotate_fields=True, include_attributes=False)


def parse_expr(text: str) -> Optional[ast.AST]:
    try:
        return ast.parse(text, mode='eval').body
    except (SyntaxError, ValueError, RecursionError, MemoryError):
        return None


def clone(n: Any) -> Any:
    """A structural copy of an AST: fields only.  (copy.deepcopy also follows whatever attributes have been attached to the nodes - and
    the expression-context objects Load()/Store() are shared by all trees of the process, so an attribute that some code attached to them,
    such as pydoctor's `parent`, would drag a whole foreign tree into every copy.)"""
    if isinstance(n, ast.AST):
        new = type(n)(**{f: clone(getattr(n, f)) for f in n._fields if hasattr(n, f)})
        for a in ('lineno', 'col_offset', 'end_lineno', 'end_col_offset'):
            if hasattr(n, a):
                setattr(new, a, getattr(n, a))
        return new
    if isinstance(n, list):
        return [clone(x) for x in n]
    return n


def same(source_expr: ast.AST, shown_text: str) -> Optional[str]:
    """None if the shown text denotes source_expr, else an explanation."""
    shown = parse_expr(shown_text)
    if shown is None:
        # maybe it needs enclosing parentheses to span lines
        shown = parse_expr('(\n' + shown_text + '\n)')
    if shown is None:
        return 'shown text is not a Python expression'
    a = norm_dump(clone(source_expr))
    b = norm_dump(shown)
    if a == b:
        return None
    return 'reads back as a different expression: %s' % _short_diff(a, b)


def _short_diff(a: str, b: str) -> str:
    i = 0
    while i < min(len(a), len(b)) and a[i] == b[i]:
        i += 1
    return 'source ...%s | shown ...%s' % (a[max(0, i - 40):i + 80], b[max(0, i - 40):i + 80])
