"""Independent reference for C13, written from the module docstring of pydoctor.qnmatch and
docs/source/customize.rst -- never from qnmatch.translate.

A pattern is a list of tokens:
  ('lit', c)            the character c
  ('q',)                ?   : exactly one character (any)
  ('star',)             *   : any run of characters without a dot (possibly empty)
  ('dstar',)            **  : any run of characters (possibly empty)
  ('set', chars, neg)   [seq] / [!seq] : exactly one character in / not in chars
The whole name must match.
"""
from __future__ import annotations

from typing import Iterable, List, Sequence, Tuple

Tok = Tuple


def tok_str(t: Tok) -> str:
    k = t[0]
    if k == 'lit':
        return t[1]
    if k == 'q':
        return '?'
    if k == 'star':
        return '*'
    if k == 'dstar':
        return '**'
    if k == 'set':
        return '[' + ('!' if t[2] else '') + t[1] + ']'
    raise ValueError(t)


def pat_str(toks: Sequence[Tok]) -> str:
    return ''.join(tok_str(t) for t in toks)


def well_formed(toks: Sequence[Tok]) -> bool:
    """No two adjacent star tokens: the manual defines `*` and `**`, not longer runs."""
    for a, b in zip(toks, toks[1:]):
        if a[0] in ('star', 'dstar') and b[0] in ('star', 'dstar'):
            return False
    return True


def match(toks: Sequence[Tok], name: str) -> bool:
    n = len(toks)

    def closure(S: set) -> set:
        out = set(S)
        work = list(S)
        while work:
            i = work.pop()
            if i < n and toks[i][0] in ('star', 'dstar') and i + 1 not in out:
                out.add(i + 1)
                work.append(i + 1)
        return out

    S = closure({0})
    for ch in name:
        T = set()
        for i in S:
            if i == n:
                continue
            t = toks[i]
            k = t[0]
            if k == 'lit':
                if ch == t[1]:
                    T.add(i + 1)
            elif k == 'q':
                T.add(i + 1)
            elif k == 'star':
                if ch != '.':
                    T.add(i)
            elif k == 'dstar':
                T.add(i)
            elif k == 'set':
                if (ch in t[1]) != bool(t[2]):
                    T.add(i + 1)
        if not T:
            return False
        S = closure(T)
    return n in S


def default_privacy(name: str) -> str:
    last = name.rsplit('.', 1)[-1]
    if last.startswith('_') and not (last.startswith('__') and last.endswith('__')):
        return 'PRIVATE'
    return 'PUBLIC'


def privacy(fullname: str, rules: Sequence[Tuple[str, str, Sequence[Tok]]]) -> str:
    """rules: (LEVEL, pattern string, tokens) in command-line order.
    exact (pattern string == full name) beats patterns; within a sort the last one wins."""
    res = default_privacy(fullname)
    for level, _pat, toks in rules:
        if match(toks, fullname):
            res = level
    for level, pat, _toks in rules:
        if pat == fullname:
            res = level
    # the second loop leaves the *last* exact rule in res; if none, the last matching pattern.
    exact = [lv for lv, p, _t in rules if p == fullname]
    if exact:
        return exact[-1]
    return res
