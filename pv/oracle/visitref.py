"""Executable reading of the visitor contract (docstrings of pydoctor.visitor: the four pruning
exceptions, When, VisitorExt).  Written from the prose, not from Visitor.walkabout.

tree   : node -> list of children (nodes are ints, 0 is the root)
action : node -> one of None, 'SkipChildren', 'SkipSiblings', 'SkipNode', 'SkipDeparture'
         raised by the *main* visitor's visit_ method
exts   : list of (ext_id, when) in registration order, when in BEFORE/AFTER/INNER/OUTTER

Returns the expected trace: list of (who, 'visit'|'depart', node), who = 'main' or ext_id.
"""
from __future__ import annotations

from typing import Dict, List, Optional, Sequence, Tuple


def expected_trace(tree: Dict[int, List[int]], action: Dict[int, Optional[str]],
                   exts: Sequence[Tuple[str, str]], root: int = 0) -> List[Tuple[str, str, int]]:
    ev: List[Tuple[str, str, int]] = []

    def by(*whens: str) -> List[str]:
        out: List[str] = []
        for w in whens:  # ExtList order: all of the first timing, then all of the second
            out.extend(e for e, ww in exts if ww == w)
        return out

    def go(n: int) -> bool:
        """returns True when the right siblings of n must be skipped"""
        act = action.get(n)
        # BEFORE and OUTTER extensions enter before the main visitor, AFTER and INNER after it;
        # a pruning exception of the main visitor is delayed until the extensions have visited.
        for e in by('BEFORE', 'OUTTER'):
            ev.append((e, 'visit', n))
        ev.append(('main', 'visit', n))
        for e in by('AFTER', 'INNER'):
            ev.append((e, 'visit', n))
        # SkipChildren / SkipNode: no children.  SkipSiblings / SkipDeparture: children not affected.
        if act not in ('SkipChildren', 'SkipNode'):
            for c in tree.get(n, []):
                if go(c):
                    break
        # BEFORE and INNER extensions leave before the main visitor, AFTER and OUTTER after it;
        # extensions leave every node they entered, the main depart_ is skipped for SkipNode/SkipDeparture.
        for e in by('BEFORE', 'INNER'):
            ev.append((e, 'depart', n))
        if act not in ('SkipNode', 'SkipDeparture'):
            ev.append(('main', 'depart', n))
        for e in by('AFTER', 'OUTTER'):
            ev.append((e, 'depart', n))
        return act == 'SkipSiblings'

    go(root)
    return ev


def invariants(trace: Sequence[Tuple[str, str, int]], tree: Dict[int, List[int]], root: int = 0) -> List[str]:
    """Oracle-independent reading of the statement: at most once, entered => left, nested like the tree."""
    problems: List[str] = []
    parent = {c: p for p, cs in tree.items() for c in cs}
    whos = sorted({w for w, _k, _n in trace})
    for who in whos:
        seen_visit = set()
        seen_depart = set()
        stack: List[int] = []
        for w, kind, n in trace:
            if w != who:
                continue
            if kind == 'visit':
                if n in seen_visit:
                    problems.append("%s enters node %d twice" % (who, n))
                seen_visit.add(n)
                if who != 'main':
                    if stack and parent.get(n) != stack[-1]:
                        problems.append("%s enters node %d while inside node %d which is not its parent" % (who, n, stack[-1]))
                    stack.append(n)
            else:
                if n in seen_depart:
                    problems.append("%s leaves node %d twice" % (who, n))
                seen_depart.add(n)
                if n not in seen_visit:
                    problems.append("%s leaves node %d it never entered" % (who, n))
                if who != 'main':
                    if not stack or stack[-1] != n:
                        problems.append("%s leaves node %d but innermost entered node is %s" % (who, n, stack[-1] if stack else None))
                    else:
                        stack.pop()
        if who != 'main':
            for n in seen_visit - seen_depart:
                problems.append("%s entered node %d and never left it" % (who, n))
    return problems
