"""O-CPY: import a generated project with CPython itself (in this process, then purge sys.modules) and dump what the
interpreter binds."""
from __future__ import annotations

import importlib
import inspect
import os
import shutil
import sys
import tempfile
import types
from typing import Any, Callable, Dict, List, Optional, Tuple

from ..run import scratch_root, write_tree


def import_project(files: Dict[str, str], modnames: List[str], observe: Callable[[Dict[str, types.ModuleType]], Any]) -> Any:
    """Writes the files, imports the modules in the given order, calls observe({name: module}) and cleans up.
    Raises whatever the import raises."""
    base = tempfile.mkdtemp(prefix='pv_cpy_', dir=scratch_root())
    roots = sorted({m.split('.')[0] for m in modnames})
    try:
        write_tree(base, files)
        sys.path.insert(0, base)
        importlib.invalidate_caches()
        for r in list(sys.modules):
            if r.split('.')[0] in roots:
                del sys.modules[r]
        mods = {}
        old_flag = sys.dont_write_bytecode
        sys.dont_write_bytecode = True
        try:
            for m in modnames:
                mods[m] = importlib.import_module(m)
            return observe(mods)
        finally:
            sys.dont_write_bytecode = old_flag
    finally:
        if base in sys.path:
            sys.path.remove(base)
        for r in list(sys.modules):
            if r.split('.')[0] in roots:
                del sys.modules[r]
        importlib.invalidate_caches()
        shutil.rmtree(base, ignore_errors=True)


def token(v: Any) -> Optional[str]:
    if isinstance(v, types.ModuleType):
        return 'MOD:' + v.__name__
    if isinstance(v, bool):
        return None
    if isinstance(v, int):
        return 'VAL:%d' % v
    if inspect.isclass(v) or inspect.isfunction(v):
        d = getattr(v, '__doc__', None) or ''
        if d.startswith('ID:'):
            return d
    return None
