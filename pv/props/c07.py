"""C07 - a re-exported object is documented once, where exported, and stays reachable.

Generated packages (pv/gen/rexproj.py): implementation modules, one re-exporter per exported object (package or
sibling module; plain, renamed, absolute or star import; __all__ list or tuple), consumers that reach the object by
import from the defining module, from the re-exporter, both, through a module alias, as a base class, in an annotation,
and by docstring cross-reference with the old and the new qualified name; analysed in EVERY reachable processing order
(package module first, its modules in any order, roots in any order) when there are <= 120 of them, else 64 sampled.

Oracle (reference model): (a) exactly one registry entry carries the identity token; its key is
<re-exporter>.<exported name>; all members are registered under that prefix and nowhere else; (b) nothing is registered
at the old location; (c) every consumer leads to that one object.
"""
from __future__ import annotations

import contextlib
import io
import itertools
from typing import Any, Dict, List, Optional, Tuple

from ..core import Acc, Violation, hyp_run, judge, ncpu, trunc
from ..gen import rexproj
from ..sysutil import files_to_mods, make_system

ID = "C07"
RULE = ("packages with 1-3 implementation modules, 1-9 definitions, each exported object re-exported by exactly one module "
        "(5 import forms x 2 __all__ spellings x package/sibling; a renamed export may clash with an unrelated class of the defining module), 1-2 consumer modules with 1-4 uses each (7 ways of reaching x 5 ways "
        "of using), x every reachable processing order (thorough: exhaustive when <= 120, else 64 evenly spaced; quick: exhaustive when <= 24, else 32). Non-trivial when >=1 object is re-exported and >=1 "
        "consumer reaches it through the defining module or an outdated name; distinct by hash of the abstract project. Plus an exhaustive family of 60 packages whose __init__ defines an object "
        "that a module of the package re-exports, the module's name beginning with the object's name or not (p.conn by p.connection), x every order; and of 16 packages that re-export an object imported through a shim module, renamed or not at either step, x every order.")
ASSUMPTIONS = [
    "at most one re-exporter per object and the defining module does not list the object in its own __all__ (the statement's precondition)",
    "'leads to' = resolveName / Class.baseobjects / the href produced by the annotation linker or by link_xref is that object (its url)",
]
import os as _os
# exhaustive up to this many schedules, 64 evenly spaced ones beyond (quick tier: 24 / 32)
MAX_ORDERS = 24 if _os.environ.get('VERIF_TIER_EFFECTIVE') == 'quick' else 120
SAMPLED_ORDERS = 32 if _os.environ.get('VERIF_TIER_EFFECTIVE') == 'quick' else 64
# input predicate: the consumer binds the object with `from <defining module> import X` and X is re-exported elsewhere
STALE = 'import-from-defining-module-of-reexported-object'


def orders_for(mods: List[Tuple[str, Optional[str], bool, str]], limit: int, pick: Optional[List[int]] = None) -> List[List[int]]:
    """All DFS pre-orders: a package first, then its direct modules in any order; roots in any order."""
    roots = [i for i, m in enumerate(mods) if m[1] is None]
    children: Dict[str, List[int]] = {}
    for i, m in enumerate(mods):
        if m[1] is not None:
            children.setdefault(m[1], []).append(i)

    def sub(i: int) -> List[List[int]]:
        name = mods[i][0] if mods[i][1] is None else mods[i][1] + '.' + mods[i][0]
        kids = children.get(name, [])
        if not kids:
            return [[i]]
        out = []
        for perm in itertools.permutations(kids):
            parts = [sub(k) for k in perm]
            for combo in itertools.product(*parts):
                out.append([i] + [x for part in combo for x in part])
                if len(out) > limit * 4:
                    return out
        return out
    res: List[List[int]] = []
    for rperm in itertools.permutations(roots):
        parts = [sub(r) for r in rperm]
        for combo in itertools.product(*parts):
            res.append([x for part in combo for x in part])
            if len(res) > limit * 8:
                break
    return res


def build_in_order(mods: List[Tuple[str, Optional[str], bool, str]], order: List[int]) -> Any:
    s = make_system()
    b = s.systemBuilder(s)
    for name, parent, ispkg, src in mods:
        b.addModuleString(src, name, parent_name=parent, is_package=ispkg)
    un = list(s.unprocessed_modules)
    s.unprocessed_modules[:] = [un[i] for i in order]
    with contextlib.redirect_stdout(io.StringIO()):
        s.process()
    return s


def _href(tag: Any) -> Optional[str]:
    """first href in a stan tree"""
    from twisted.web.template import Tag
    if isinstance(tag, Tag):
        if tag.tagName == 'a' and 'href' in tag.attributes:
            return tag.attributes['href']
        for c in tag.children:
            h = _href(c)
            if h:
                return h
    elif isinstance(tag, (list, tuple)):
        for c in tag:
            h = _href(c)
            if h:
                return h
    return None


def check_system(s: Any, proj: Dict[str, Any], meta: Dict[str, Any], order_desc: str) -> List[Tuple[str, str]]:
    from pydoctor import linker, model
    out: List[Tuple[str, str]] = []
    by_id: Dict[str, List[str]] = {}
    for k, o in s.allobjects.items():
        d = (o.docstring or '').split('\n')[0]
        if d.startswith('ID:'):
            by_id.setdefault(d, []).append(k)
    target: Dict[str, Any] = {}
    for name, d in meta['defs'].items():
        want = d.get('want') or rexproj.new_location(proj, name, d['mod'])
        keys = by_id.get('ID:%d' % d['id'], [])
        exported = rexproj.exporter_of(proj, name) is not None
        form = (rexproj.exporter_of(proj, name) or {}).get('form', '-')
        if keys != [want]:
            out.append(('documented-at:' + ('exported-' + form if exported else 'not-exported'), '%s: %s (defined in p.%s, should be documented as %s) is registered as %s' % (
                order_desc, name, d['mod'], want, keys)))
            continue
        obj = s.allobjects[want]
        target[name] = obj
        old = 'p.%s.%s' % (d['mod'], name)
        if exported and old in s.allobjects:
            out.append(('old-location-still-registered', '%s: %s was moved to %s but %s is still registered' % (order_desc, name, want, old)))
        for mname in d['members']:
            mk = by_id.get('ID:%d.%s' % (d['id'], mname), [])
            if mk != [want + '.' + mname]:
                out.append(('member-registration', '%s: member %s of %s is registered as %s, expected %s' % (order_desc, mname, name, mk, [want + '.' + mname])))
    # what a moved class carries: the annotation of one of its attributes still names the helper class of the module it was written in
    for name, d in meta['defs'].items():
        obj = target.get(name)
        if obj is None or d['kind'] != 'class' or d.get('want'):
            continue
        helper = s.allobjects.get('p.%s.Hlp%s' % (d['mod'], d['mod']))
        attr = obj.contents.get('ha')
        if helper is None or attr is None:
            continue
        try:
            from pydoctor import epydoc2stan
            with contextlib.redirect_stdout(io.StringIO()):
                h = _href(epydoc2stan.type2stan(attr))
        except Exception as e:
            out.append(('member-annotation', '%s: rendering the type of %s.ha raised %s: %s' % (order_desc, obj.fullName(), type(e).__name__, e)))
            continue
        if h is None or not (h == helper.url or helper.url.endswith(h)):
            out.append(('member-annotation', '%s: the annotation Hlp%s of %s.ha (written in p.%s) links to %r, the helper class is at %r' % (
                order_desc, d['mod'], obj.fullName(), d['mod'], h, helper.url)))
    # nested members are reachable by both the new and (through the alias left behind) the old qualified name
    for name, d in meta['defs'].items():
        obj = target.get(name)
        if obj is None or not rexproj.exporter_of(proj, name):
            continue
        for mname in d['members']:
            want = obj.fullName() + '.' + mname
            for q in (want, 'p.%s.%s.%s' % (d['mod'], name, mname)):
                try:
                    got = s.find_object(q)
                except LookupError:
                    got = None
                if got is None or got.fullName() != want:
                    out.append(('member-lookup', '%s: System.find_object(%r) gives %r, the member is documented as %s' % (order_desc, q, got, want)))
    for c in meta['checks']:
        obj = target.get(c['obj'])
        if obj is None:
            continue
        exported = rexproj.exporter_of(proj, c['obj']) is not None
        tag = '%s:%s' % (c['type'], c['how']) + (':exported' if exported else ':not-exported')
        stale = exported and c['how'] in ('from-impl', 'both')
        if c['type'] == 'name':
            mod = s.allobjects.get(c['module'])
            got = mod.resolveName(c['expr']) if mod is not None else None
            if got is not obj:
                out.append((STALE if stale else 'consumer-' + tag, '%s: in %s the name %s resolves to %r, not to %s' % (order_desc, c['module'], c['expr'], got, obj.fullName())))
        elif c['type'] == 'base':
            cls = s.allobjects.get(c['consumer'])
            if not isinstance(cls, model.Class) or not cls.baseobjects or cls.baseobjects[0] is not obj:
                out.append((STALE if stale else 'consumer-' + tag, '%s: base class of %s is %r (%s), not %s' % (
                    order_desc, c['consumer'], cls and cls.baseobjects, cls and cls.bases, obj.fullName())))
        elif c['type'] == 'ann':
            fn = s.allobjects.get(c['consumer'])
            if fn is None:
                out.append(('consumer-' + tag, '%s: consumer %s is not documented' % (order_desc, c['consumer'])))
                continue
            with contextlib.redirect_stdout(io.StringIO()):
                t = linker._AnnotationLinker(fn).link_to(c['expr'], c['expr'])
            h = _href(t)
            if h is None or h.split('#')[-1] != obj.url.split('#')[-1] or (('#' not in h) != ('#' not in obj.url)) or not obj.url.endswith(h.lstrip('#')) and h != obj.url:
                out.append((STALE if stale else 'consumer-' + tag, '%s: annotation %s of %s links to %r, the object is at %r' % (order_desc, c['expr'], c['consumer'], h, obj.url)))
        elif c['type'] == 'xref':
            fn = s.allobjects.get(c['consumer'])
            if fn is None:
                continue
            with contextlib.redirect_stdout(io.StringIO()):
                t = fn.docstring_linker.link_xref(c['target'], c['target'], 0)
            h = _href(t)
            if h is None or not (h == obj.url or obj.url.endswith(h)):
                out.append(('consumer-' + tag, '%s: cross-reference L{%s} in %s links to %r, the object is at %r' % (order_desc, c['target'], c['consumer'], h, obj.url)))
    return out


def check_project(proj: Dict[str, Any], order_pick: Optional[int] = None) -> Tuple[List[Tuple[str, str]], Dict[str, Any]]:
    files, meta = rexproj.to_files(proj)
    mods = files_to_mods(files)
    orders = orders_for(mods, MAX_ORDERS)
    info: Dict[str, Any] = {'orders_total': len(orders), 'exhaustive': len(orders) <= MAX_ORDERS}
    if len(orders) > MAX_ORDERS:
        step = len(orders) / float(SAMPLED_ORDERS)
        orders = [orders[int(i * step)] for i in range(SAMPLED_ORDERS)]
    info['orders_run'] = len(orders)
    out: List[Tuple[str, str]] = []
    seen = set()
    desc_files = '\n'.join('--- %s\n%s' % (k, v) for k, v in sorted(files.items()))
    failing_orders: Dict[str, int] = {}
    for od in orders:
        names = [(mods[i][1] + '.' if mods[i][1] else '') + mods[i][0] for i in od]
        try:
            s = build_in_order(mods, od)
        except Exception as e:
            import traceback
            out.append(('analysis-raises', 'order %s: %s\n%s' % (names, e, traceback.format_exc()[-600:])))
            break
        for sig, msg in check_system(s, proj, meta, 'order %s' % names):
            failing_orders[sig] = failing_orders.get(sig, 0) + 1
            if sig not in seen:
                seen.add(sig)
                out.append((sig, msg))
    out = [(sig, '%s\n%s\n(%d of %d orders fail this way)' % (desc_files, msg, failing_orders.get(sig, 1), len(orders))) for sig, msg in out]
    fbs = rexproj.fallback_after_star(proj)
    if fbs:
        # (finding F68: the project contains the shape; its discrepancies are those of that shape or follow from it)
        out = [(rexproj.FALLBACK_AFTER_STAR if sig != 'analysis-raises' else sig, msg) for sig, msg in out][:1]
    info['reexports'] = len(proj['exports'])
    info['outdated_consumers'] = sum(1 for c in meta['checks'] if rexproj.exporter_of(proj, c['obj']) and c['how'] in ('from-impl', 'both', 'modalias', 'pkgalias', 'dotted', 'xref-old'))
    return out, info


def check_prefix_family() -> Tuple[List[Tuple[str, str, Dict[str, Any]]], int, int]:
    """An object defined in a package's __init__ and re-exported by a module of that package whose name begins with the object's name
    (p.conn by p.connection, p.a by p.api), with unrelated names as control: exhaustive small family x every processing order.
    Returns (discrepancies with their case, systems built, cases)."""
    out: List[Tuple[str, str, Dict[str, Any]]] = []
    built = ncases = 0
    for name in ('a', 'ap', 'apix', 'conn', 'zz'):
        for kind in ('func', 'class'):
            for exporter in ('api', 'apiary', 'connection'):
                for form in ('from p import %s', 'from . import %s'):
                    case = {'kind': 'prefix', 'name': name, 'okind': kind, 'exporter': exporter, 'form': form}
                    ncases += 1
                    d, nb = check_prefix_case(case)
                    built += nb
                    out += [(sig, msg, case) for sig, msg in d]
    return out, built, ncases


def check_prefix_case(case: Dict[str, Any]) -> Tuple[List[Tuple[str, str]], int]:
    name, kind, exporter, form = case['name'], case['okind'], case['exporter'], case['form']
    Q = '"' * 3
    body = ('def %s():\n    ' + Q + 'ID:1' + Q + '\n' if kind == 'func' else 'class %s:\n    ' + Q + 'ID:1' + Q + '\n    def m(self):\n        ' + Q + 'ID:1.m' + Q + '\n') % name
    files = {'p/__init__.py': body, 'p/%s.py' % exporter: (form % name) + '\n__all__ = [%r]\n' % name,
             'p/user.py': 'import p\nfrom p.%s import %s as new\n' % (exporter, name)}
    mods = files_to_mods(files)
    want = 'p.%s.%s' % (exporter, name)
    desc = '\n'.join('--- %s\n%s' % (k, v) for k, v in sorted(files.items()))
    nb = 0
    for od in orders_for(mods, MAX_ORDERS):
        names = [(mods[i][1] + '.' if mods[i][1] else '') + mods[i][0] for i in od]
        s = build_in_order(mods, od)
        nb += 1
        o = s.allobjects.get(want)
        if o is None or o.docstring != 'ID:1':
            return [('documented-at:prefix-named-exporter', '%s\norder %s: %s is listed in __all__ of p.%s but %s is %r; the object is at %s' % (
                desc, names, name, exporter, want, o, [k for k, x in s.allobjects.items() if x.docstring == 'ID:1']))], nb
        if ('p.' + name) in s.allobjects:
            return [('still-at-old-location', '%s\norder %s: p.%s is still registered after the move' % (desc, names, name))], nb
        u = s.allobjects['p.user']
        if u.resolveName('new') is not o or u.expandName('p.' + name) != want:
            return [('consumer-broken', '%s\norder %s: p.user: `new` resolves to %r, the old name p.%s expands to %r' % (desc, names, u.resolveName('new'), name, u.expandName('p.' + name)))], nb
    return [], nb


def hop_family_cases() -> List[Dict[str, Any]]:
    """The re-exporter imports the object from a module that only imports it itself (a compatibility shim), under the same or another
    name, and exports it under the same or another name: exhaustive small family x every processing order."""
    return [{'kind': 'hop', 'shim_as': sa, 'export_as': ea, 'okind': k, 'form': f}
            for sa in ('Engine', 'Eng') for ea in ('same', 'Motor') for k in ('class', 'func') for f in ('from ._compat import %s', 'from p._compat import %s')]


def check_hop_case(case: Dict[str, Any]) -> Tuple[List[Tuple[str, str]], int]:
    Q = '"' * 3
    sa, ea, kind = case['shim_as'], case['export_as'], case['okind']
    exported = sa if ea == 'same' else ea
    core = ('class Engine:\n    ' + Q + 'ID:1' + Q + '\n    def start(self):\n        ' + Q + 'ID:1.start' + Q + '\n' if kind == 'class'
            else 'def Engine():\n    ' + Q + 'ID:1' + Q + '\n')
    shim = 'from ._core import Engine' + ('' if sa == 'Engine' else ' as ' + sa) + '\n'
    imp = (case['form'] % sa) + ('' if exported == sa else ' as ' + exported)
    files = {'p/__init__.py': imp + '\n__all__ = [%r]\n' % exported, 'p/_core.py': core, 'p/_compat.py': shim,
             'p/user.py': 'from p import %s as new\nimport p\n' % exported}
    mods = files_to_mods(files)
    want = 'p.' + exported
    desc = '\n'.join('--- %s\n%s' % (k, v) for k, v in sorted(files.items()))
    nb = 0
    for od in orders_for(mods, MAX_ORDERS):
        names = [(mods[i][1] + '.' if mods[i][1] else '') + mods[i][0] for i in od]
        s = build_in_order(mods, od)
        nb += 1
        o = s.allobjects.get(want)
        holders = [k for k, x in s.allobjects.items() if x.docstring == 'ID:1']
        if o is None or o.docstring != 'ID:1' or holders != [want]:
            return [('documented-at:through-a-shim', '%s\norder %s: %s is listed in __all__ of p (imported through p._compat) but the object is registered as %s' % (desc, names, exported, holders))], nb
        if kind == 'class' and (want + '.start') not in s.allobjects:
            return [('members-not-moved', '%s\norder %s: %s.start is not registered' % (desc, names, want))], nb
        u = s.allobjects['p.user']
        if u.resolveName('new') is not o or u.expandName('p._core.Engine') != want:
            return [('consumer-broken', '%s\norder %s: p.user: `new` resolves to %r, the old name p._core.Engine expands to %r' % (desc, names, u.resolveName('new'), u.expandName('p._core.Engine')))], nb
    return [], nb


def plan(tier: str, seed: int, scale: float = 1.0) -> List[Any]:
    n = ncpu()
    total = int((800 if tier == "quick" else 6000) * scale)
    return [{'n': max(1, total // n), 'seed': seed * 1000 + i} for i in range(n)] + [{'kind': 'prefix'}, {'kind': 'hop'}]


def work(item: Dict[str, Any]) -> Acc:
    acc = Acc()
    if item.get('kind') == 'hop':
        for i, c in enumerate(hop_family_cases()):
            d, built = check_hop_case(c)
            acc.case(key=('hop', i), nontrivial=True, sample=c if i % 8 == 0 else None, classes=['re-export-through-a-shim'])
            acc.notes['systems_built'] = acc.notes.get('systems_built', 0) + built
            try:
                judge(ID, acc, c, d)
            except Violation as v:
                acc.violations.append(v.as_dict())
                break
        return acc
    if item.get('kind') == 'prefix':
        ds, built, ncases = check_prefix_family()
        bad = {id(c): True for _s, _m, c in ds}
        for i in range(ncases):
            acc.case(key=('prefix', i), nontrivial=True, sample={'prefix_named_exporter_family': i} if i == 0 else None, classes=['prefix-named-exporter'])
        acc.notes['systems_built'] = acc.notes.get('systems_built', 0) + built
        for sig, msg, case in ds:
            try:
                judge(ID, acc, case, [(sig, msg)])
            except Violation as v:
                acc.violations.append(v.as_dict())
                break
        return acc

    def body(proj):
        d, info = check_project(proj)
        acc.case(key=proj, nontrivial=info['reexports'] >= 1 and info['outdated_consumers'] >= 1,
                 sample={'exports': proj['exports'], 'consumers': proj['consumers'], 'orders_run': info['orders_run'], 'orders_total': info['orders_total']},
                 classes=['orders-exhaustive' if info['exhaustive'] else 'orders-sampled'] + ['export-' + e['form'] + '-via-' + e['via'] for e in proj['exports']])
        acc.notes['systems_built'] = acc.notes.get('systems_built', 0) + info['orders_run']
        judge(ID, acc, proj, d)
    hyp_run(acc, rexproj.projects(), body, item['n'], item['seed'])
    return acc


def replay(case: Dict[str, Any]) -> List[Tuple[str, str]]:
    if case.get('kind') == 'prefix':
        return check_prefix_case(case)[0]
    if case.get('kind') == 'hop':
        return check_hop_case(case)[0]
    return check_project(case)[0]
