"""C12 - hidden objects leave no trace; private objects are always marked private.

Same runs as C11 (link-rich projects / grammar trees x privacy rule lists), model read from the same in-process run.
For every object with isVisible == False: no page file, no anchor on what would be its parent's page, no link
anywhere resolving to its URL, no <li> for it in all-documents.html, not a document ref in searchindex.json /
fullsearchindex.json, no line in the decompressed objects.inv.  For every PRIVATE object: each listing entry that
links to it (child-table row, member-detail div, sidebar item, index item) carries the `private` class and its
all-documents entry says PRIVATE.  Plain textual mention of a hidden name is not asserted against.
"""
from __future__ import annotations

import json
import os
import zlib
from typing import Any, Dict, List, Optional, Set, Tuple
from urllib.parse import unquote

from ..core import Acc, Violation, hyp_run, judge, ncpu, trunc
from ..oracle import crawl
from ..run import pydoctor_run

ID = "C12"
RULE = ("as C11, with privacy rule lists (exact names and patterns, 3 levels, any order) aimed at bases of visible classes, modules "
        "that are imported from, overridden / cross-referenced members, whole packages and roots. Non-trivial when the run has "
        ">=1 hidden object that something visible refers to (as base, import source, override or cross-reference) or >=1 private "
        "object with a listing entry; distinct by hash of (files, args).")
ASSUMPTIONS = [
    "textual mention of a hidden name (e.g. `class D(HiddenBase)`) is allowed: the statement lists pages, anchors, rows, entries and hyperlinks",
    "objects whose kind is None (type-only field attributes) are outside the statement",
]


def check_output(case: Dict[str, Any]) -> Tuple[List[Tuple[str, str]], Dict[str, Any]]:
    from pydoctor import model
    from .c01 import _dec
    files = {k: _dec(v) for k, v in case['files'].items()}
    info: Dict[str, Any] = {'hidden': 0, 'private_entries': 0, 'hidden_referenced': 0}
    out: List[Tuple[str, str]] = []
    with pydoctor_run(files, case['roots'], case['args'], timeout=180) as r:
        if r.exc is not None or r.timeout or r.code not in (0, 2, 3):
            info['crashed'] = True
            return [], info
        s = r.system
        pages = crawl.read_dir(r.out)
        hidden = [o for o in s.allobjects.values() if not o.isVisible and o.kind is not None]
        info['hidden'] = len(hidden)
        hidden_urls: Dict[str, Any] = {}
        for o in hidden:
            url = o.url
            fname = unquote(url.split('#')[0])
            frag = unquote(url.split('#', 1)[1]) if '#' in url else None
            hidden_urls[(fname, frag)] = o
            if o.documentation_location is model.DocLocation.OWN_PAGE:
                if os.path.lexists(os.path.join(r.out, fname)) and fname != 'index.html':
                    out.append(('hidden-has-page', 'hidden %s has a page %r' % (o.fullName(), fname)))
            else:
                # anchor on what would be the parent's page - unless a visible object of the same name owns it
                pg = pages.get(fname)
                owner = o.parent.contents.get(o.name) if o.parent is not None else None
                if pg is not None and pg.dom is not None and frag in pg.anchors and (owner is None or owner is o or not owner.isVisible):
                    out.append(('hidden-has-anchor', 'hidden %s has an anchor %r on %s' % (o.fullName(), frag, fname)))
        # no link anywhere targets a hidden object
        for name, pg in pages.items():
            if pg.dom is None:
                continue
            for l in pg.links:
                target, frag, internal = crawl.resolve(r.out, name, l['value'])
                if not internal or target is None:
                    continue
                o = hidden_urls.get((target, frag))
                if o is None and l.get('title') in s.allobjects and not s.allobjects[l['title']].isVisible and s.allobjects[l['title']].kind is not None:
                    o = s.allobjects[l['title']]
                if o is None or (target == 'index.html' and frag is None):
                    continue  # index.html always exists: it is the index page when the only root is hidden
                # a visible object may legitimately live at the same address (e.g. index.html, or the later definition of a duplicate)
                same_addr = [v for v in s.allobjects.values() if v.isVisible and unquote(v.url) == (target + ('#' + frag if frag else ''))]
                if same_addr:
                    continue
                info['hidden_referenced'] += 1
                ctx = ' > '.join('%s.%s' % (t, '.'.join(c)) for t, c, _i in l['ctx'][-3:])
                out.append(('link-to-hidden', 'on %s: %s=%r targets hidden %s (inside %s)' % (name, l['attr'], l['value'], o.fullName(), ctx)))
        # the list of roots on index.html
        ix = pages.get('index.html')
        if ix is not None and ix.dom is not None and len(s.rootobjects) > 1:
            shown = {crawl._text(li).strip() for li in ix.dom.getElementsByTagName('li') if not li.getElementsByTagName('ul')}
            for o in s.rootobjects:
                if not o.isVisible and o.fullName() in shown:
                    out.append(('hidden-in-index', 'hidden root %s is listed on index.html' % o.fullName()))
        # all-documents entries
        ad = pages.get('all-documents.html')
        doc_ids: Set[str] = set()
        privacy_of: Dict[str, str] = {}
        if ad is not None and ad.dom is not None:
            for li in ad.dom.getElementsByTagName('li'):
                if li.hasAttribute('id'):
                    doc_ids.add(li.getAttribute('id'))
                    for d in li.getElementsByTagName('div'):
                        if d.getAttribute('class') == 'privacy':
                            privacy_of[li.getAttribute('id')] = crawl._text(d).strip()
        for o in hidden:
            if o.fullName() in doc_ids:
                out.append(('hidden-in-all-documents', 'hidden %s has an entry in all-documents.html' % o.fullName()))
        # search indexes
        for idx in ('searchindex.json', 'fullsearchindex.json'):
            p = os.path.join(r.out, idx)
            if os.path.exists(p):
                data = json.load(open(p))
                refs = set()
                for fv in data.get('fieldVectors', []):
                    refs.add(fv[0].split('/', 1)[1])
                for o in hidden:
                    if o.fullName() in refs:
                        out.append(('hidden-in-search-index', 'hidden %s is a document of %s' % (o.fullName(), idx)))
                        break
        # inventory
        invp = os.path.join(r.out, 'objects.inv')
        if os.path.exists(invp):
            raw = open(invp, 'rb').read()
            payload = zlib.decompress(raw.split(b'zlib.\n', 1)[1]).decode('utf-8')
            names = {l.split(' py:')[0] for l in payload.splitlines()}
            for o in hidden:
                if o.fullName() in names:
                    out.append(('hidden-in-inventory', 'hidden %s has a line in objects.inv' % o.fullName()))
                    break
        # private marking
        priv = {}
        for o in s.allobjects.values():
            if o.isVisible and o.kind is not None and o.privacyClass is model.PrivacyClass.PRIVATE:
                priv[unquote(o.url)] = o
        for name, pg in pages.items():
            for e in crawl.listing_entries(pg):
                targets = []
                for href in e.get('links', []):
                    t, fr, internal = crawl.resolve(r.out, name, href)
                    if internal and t is not None:
                        targets.append(t + ('#' + fr if fr else ''))
                for a in e.get('anchors', []):
                    targets.append(name + '#' + a)
                for t in targets:
                    o = priv.get(t)
                    if o is None:
                        continue
                    # the entry must be about that object (same-address public objects do not exist for private ones)
                    if e['kind'] == 'classindex-item':
                        # hiding the entry hides the subclasses nested below it: the marker is required when that loses nothing,
                        # i.e. when every visible subclass (at any depth) is private too
                        def below_private(c: Any, seen: Any = None) -> bool:
                            seen = seen or set()
                            for sc in getattr(c, 'subclasses', []):
                                if id(sc) in seen or not sc.isVisible:
                                    continue
                                seen.add(id(sc))
                                if sc.privacyClass is not model.PrivacyClass.PRIVATE or not below_private(sc, seen):
                                    return False
                            return True
                        if not below_private(o):
                            continue
                    info['private_entries'] += 1
                    if 'private' not in e['classes']:
                        out.append(('private-not-marked', 'on %s: %s entry for private %s has classes %s' % (name, e['kind'], o.fullName(), e['classes'])))
        for o in priv.values():
            if o.fullName() in privacy_of and privacy_of[o.fullName()] != 'PRIVATE':
                out.append(('private-not-marked', 'all-documents.html says %s for private %s' % (privacy_of[o.fullName()], o.fullName())))
    seen = set()
    res = []
    for sig, msg in out:
        if sig not in seen:
            seen.add(sig)
            res.append((sig, msg))
    return res, info


def plan(tier: str, seed: int, scale: float = 1.0) -> List[Any]:
    n = ncpu()
    total = int((320 if tier == 'quick' else 4000) * scale)
    items: List[Any] = []
    for i in range(n):
        items.append({'kind': 'linkproj', 'n': max(1, total // (2 * n)), 'seed': seed * 1000 + i})
        items.append({'kind': 'trees', 'n': max(1, total // (2 * n)), 'seed': seed * 1000 + 100 + i})
    return items


def work(item: Dict[str, Any]) -> Acc:
    acc = Acc()

    def run(c: Dict[str, Any], label: str) -> None:
        d, info = check_output(c)
        if info.get('crashed'):
            acc.inconclusive += 1
            return
        acc.case(key=(c['files'], c['args']), nontrivial=info['hidden'] >= 1 or info['private_entries'] >= 1,
                 sample={'files': {k: trunc(v, 100) for k, v in list(c['files'].items())[:6]}, 'args': c['args'], 'info': info},
                 classes=[label, 'has-hidden' if info['hidden'] else 'no-hidden', 'has-private-entries' if info['private_entries'] else 'no-private-entries'])
        judge(ID, acc, dict(c, kind='output'), d)
    if item['kind'] == 'linkproj':
        from ..gen import linkproj
        hyp_run(acc, linkproj.projects(), lambda c: run(c, 'linkproj'), item['n'], item['seed'])
    else:
        from .c01 import st_tree
        hyp_run(acc, st_tree(clean=True), lambda c: run(c, 'grammar-tree'), item['n'], item['seed'])
    return acc


def replay(case: Dict[str, Any]) -> List[Tuple[str, str]]:
    return check_output(case)[0]
