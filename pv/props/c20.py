"""C20 - options mean the same whether given on the command line or in a config file.

The option list is enumerated from options.get_parser()._actions at run time.  For every option and a set of
representative + adversarial values, the effective configuration attr.asdict(Options.from_args(argv)) computed in a
scratch working directory is compared between: command line only / pyproject.toml [tool.pydoctor] / setup.cfg
[tool:pydoctor] / pydoctor.ini [pydoctor]; command line + file gives the command-line value (repeatable options
are overridden, not merged); order of repeated items is kept; an unknown key gives exactly one warning and changes
nothing; invalid values fail on both routes; any string written quoted is read back as the same text.
"""
from __future__ import annotations

import argparse
import contextlib
import io
import itertools
import os
import shutil
import tempfile
import warnings
from typing import Any, Dict, List, Optional, Sequence, Tuple

from ..core import Acc, Violation, hyp_run, judge, ncpu, trunc
from ..run import scratch_root

ID = "C20"
RULE = ("options: every action of the argument parser (enumerated at run time) x its value candidates x 3 file formats x writer "
        "variants (plain / single- / double-quoted / multi-line / list literal), file-only vs CLI-only, plus CLI+file override; "
        "quoting: every string of length <=L over a 17-character quoting alphabet (exhaustive) and random longer strings, "
        "through string options and through items of a repeatable option. Distinct by construction / by hash; a case is "
        "non-trivial when the value differs from the option's default.")
ASSUMPTIONS = [
    "TOML files are written with toml.dumps (cases that toml itself cannot round-trip are skipped and counted)",
    "INI files are written by the rules of the manual: configparser defaults, % doubled, one-line Python-quoted strings, lists as multi-line values or list literals",
    "precedence between several config files is not part of the statement and is not asserted",
]
ALL_EXHAUSTIVE = False

QUOTE_ALPHABET = ["'", '"', '\\', '[', ']', ',', '#', ';', '%', '=', ':', '-', ' ', '\t', '\n', 'a', 'é']
FORMATS = ['toml', 'setupcfg', 'ini']
FILE_OF = {'toml': 'pyproject.toml', 'setupcfg': 'setup.cfg', 'ini': 'pydoctor.ini'}
SECTION_OF = {'setupcfg': 'tool:pydoctor', 'ini': 'pydoctor'}


# ------------------------------------------------------------------ running Options.from_args in a scratch cwd

def effective(argv: Sequence[str], files: Dict[str, str]) -> Dict[str, Any]:
    import attr
    from pydoctor.options import Options
    d = tempfile.mkdtemp(prefix='pv_c20_', dir=scratch_root())
    cwd = os.getcwd()
    out: Dict[str, Any] = {}
    try:
        for name, text in files.items():
            with open(os.path.join(d, name), 'w', encoding='utf-8', newline='') as fh:
                fh.write(text)
        os.chdir(d)
        se = io.StringIO()
        with warnings.catch_warnings(record=True) as w, contextlib.redirect_stderr(se), contextlib.redirect_stdout(io.StringIO()):
            warnings.simplefilter('always')
            try:
                o = Options.from_args(list(argv))
                dd = attr.asdict(o, recurse=False)
                out['status'] = 'ok'
                out['opts'] = {k: repr(v).replace(d, '<cwd>') for k, v in dd.items()}
            except SystemExit as e:
                out['status'] = 'exit'
                out['code'] = e.code
            except Exception as e:
                out['status'] = 'exception'
                out['exc'] = '%s: %s' % (type(e).__name__, e)
        out['warnings'] = [str(x.message) for x in w]
        out['stderr'] = se.getvalue()[-300:]
    finally:
        os.chdir(cwd)
        shutil.rmtree(d, ignore_errors=True)
    return out


# ------------------------------------------------------------------ writers

def py_quote(s: str, q: str) -> str:
    body = s.encode('unicode_escape').decode('ascii')
    body = body.replace(q, '\\' + q)
    return q + body + q


ODD_BOUNDARIES = '\u2028\u2029\x85\x1c\x1d\x1e\x0b\x0c'


def ini_plain_ok(s: str) -> bool:
    if s == '' or s != s.strip() or '\n' in s or '\r' in s:
        return False
    if s[0] in '#;[' or s[0] in '\'"':
        return False
    if s.startswith('[') and s.endswith(']'):
        return False
    # (characters that str.splitlines() takes for line boundaries are not line boundaries of a file: inside a value they are kept)
    return all(ch.isprintable() or ch in ODD_BOUNDARIES for ch in s)


def ini_triple(s: str) -> Optional[str]:
    """help.rst: 'If for some reason you need newlines in a string value, just tripple quote your string like you would
    do in python' - a triple-quoted value spanning real (indented) continuation lines."""
    lines = s.split('\n')
    if len(lines) < 2:
        return None
    for l in lines:
        if l == '' or l != l.strip() or l[0] in '#;' or '\r' in l or not all(ch.isprintable() for ch in l):
            return None
    if "'''" in s or '"""' in s:
        return None
    q = "'''" if not s.endswith("'") and not s.startswith("'") else '"""'
    if q == '"""' and (s.endswith('"') or s.startswith('"')):
        return None
    body = s.replace('\\', '\\\\')
    return (q + body.replace('\n', '\n    ') + q).replace('%', '%%')


def ini_value(s: str, style: str) -> Optional[str]:
    if style == 'triple':
        return ini_triple(s)
    if style == 'plain':
        if not ini_plain_ok(s):
            return None
        return s.replace('%', '%%')
    q = "'" if style == 'single' else '"'
    return py_quote(s, q).replace('%', '%%')


def ini_list(items: Sequence[str], style: str) -> Optional[str]:
    if style == 'multiline':
        if not items or not all(ini_plain_ok(i) for i in items):
            return None
        return '\n' + '\n'.join('    ' + i.replace('%', '%%') for i in items)
    q = "'" if style == 'single' else '"'
    return ('[' + ', '.join(py_quote(i, q) for i in items) + ']').replace('%', '%%')


def toml_file(key: str, value: Any) -> Optional[str]:
    import toml
    doc = {'tool': {'pydoctor': {key: value}}}
    try:
        text = toml.dumps(doc)
        if toml.loads(text) != doc:
            return None
    except Exception:
        return None
    return text


def write_file(fmt: str, key: str, value: Any, style: str) -> Optional[str]:
    """value: str, int, bool or list of str.  Returns the file text or None if this style cannot express the value."""
    if fmt == 'toml':
        return toml_file(key, value)
    sec = SECTION_OF[fmt]
    if isinstance(value, list):
        v = ini_list(value, style if style in ('multiline', 'single', 'double') else 'double')
    elif isinstance(value, bool):
        v = 'true' if value else 'false'
    elif isinstance(value, int):
        v = str(value)
    else:
        v = ini_value(value, style)
    if v is None:
        return None
    return '[%s]\n%s = %s\n' % (sec, key, v)


def also_valid_toml(text: str) -> bool:
    import toml
    try:
        toml.loads(text)
        return True
    except Exception:
        return False


# ------------------------------------------------------------------ the option table

def option_table() -> List[Dict[str, Any]]:
    from pydoctor.options import get_parser
    p = get_parser()
    table = []
    for a in p._actions:
        keys = p.get_possible_config_keys(a)
        if not keys or a.dest in ('help', 'version', 'config'):
            continue
        if isinstance(a, (argparse._HelpAction, argparse._VersionAction)):
            continue
        kind = ('flag' if isinstance(a, (argparse._StoreTrueAction, argparse._StoreFalseAction)) else
                'count' if isinstance(a, argparse._CountAction) else
                'append' if isinstance(a, argparse._AppendAction) else
                'choice' if a.choices else
                'int' if a.type is int else 'str')
        if not a.option_strings:
            continue  # positionals are set through add-package
        table.append({'dest': a.dest, 'keys': list(keys), 'flag': a.option_strings[-1], 'kind': kind,
                      'choices': list(a.choices) if a.choices else None})
    return table


FREE_STRINGS = ['two\nlines', 'three\nlines of\ntext = x', 'simple', 'two words', 'x=y', 'a:b', 'semi;colon', 'hash # tag', '100%', '%(x)s', "it's", 'say "hi"', 'back\\slash', '[bracket]', '[a, b]', 'comma,sep',
                '-dash', '--double', ' lead', 'trail ', 'tab\tin', 'café', '中', "'quoted'", '"dq"', 'true', '1', '#start', ';start', '{mod_source_href}#n{lineno}', 'a\\tb', '\\', "'", '"', 'line\u2028sep', 'nel\x85x']
STR_VALUES = {
    'htmlwriter': ['pydoctor.templatewriter.TemplateWriter', 'pydoctor.templatewriter.NoSuchWriter', 'nodots'],
    'systemclass': ['pydoctor.model.System', 'pydoctor.extensions.zopeinterface.NoSuch', 'x'],
    'projectbasedirectory': ['.', 'sub/dir', 'with space'],
    'htmloutput': ['out', 'my docs', 'o#1'],
}
APPEND_VALUES = {
    'privacy': [['HIDDEN:a.b'], ['PUBLIC:a', 'hidden:a.*', 'PRIVATE:**'], ['PUBLIC:x.[ab]*', 'HIDDEN:?'], ['WRONG:x'], ['nocolon']],
    'templatedir': [['t1'], ['t1', 't 2', 't1']],
    'packages': [['src/a'], ['b', 'a', 'b']],
}
APPEND_DEFAULT = [['one'], ['z', 'a', 'm', 'a'], ['with space', 'x=y', "it's", 'per%cent', '#hash', 'a,b', '[x]', 'back\\slash'], ['https://example.org/objects.inv', 'http://h/p?q=1&r=2#f'],
                  ['plain', 'line\u2028separator', 'nel\x85here'], ['para\u2029sep x', 'ff\x0chere', 'fs\x1cgs\x1drs\x1e', 'vt\x0bx']]


def cli_args(opt: Dict[str, Any], value: Any) -> List[str]:
    k = opt['kind']
    if k == 'flag':
        return [opt['flag']] if value else []
    if k == 'count':
        return [opt['flag']] * int(value)
    if k == 'append':
        return ['%s=%s' % (opt['flag'], v) for v in value]
    return ['%s=%s' % (opt['flag'], value)]


def candidates(opt: Dict[str, Any]) -> List[Any]:
    k = opt['kind']
    if k == 'flag':
        return [True, False]
    if k == 'count':
        return [0, 1, 2, 3]
    if k == 'append':
        return APPEND_VALUES.get(opt['dest'], APPEND_DEFAULT)
    if k == 'choice':
        return opt['choices'] + ['not-a-choice']
    if k == 'int':
        return ['0', '1', '3', '12', '-1', 'x', '1.5', '']
    return STR_VALUES.get(opt['dest'], FREE_STRINGS)


def file_variants(opt: Dict[str, Any], value: Any) -> List[Tuple[str, str, str, str]]:
    """(fmt, key, style, file text)"""
    out = []
    k = opt['kind']
    for key in opt['keys']:
        for fmt in FORMATS:
            if k == 'flag':
                spell = (['true', 'yes', '1', 'on', 'True'] if value else ['false', 'no', '0', 'off'])
                if fmt == 'toml':
                    t = write_file(fmt, key, bool(value), '')
                    if t:
                        out.append((fmt, key, 'bool', t))
                    t = write_file(fmt, key, spell[1], '')
                    if t:
                        out.append((fmt, key, 'str', t))
                else:
                    for sp in spell:
                        out.append((fmt, key, sp, '[%s]\n%s = %s\n' % (SECTION_OF[fmt], key, sp)))
            elif k == 'count':
                if fmt == 'toml':
                    for v in (int(value), str(value)):
                        t = write_file(fmt, key, v, '')
                        if t:
                            out.append((fmt, key, type(v).__name__, t))
                else:
                    out.append((fmt, key, 'plain', '[%s]\n%s = %d\n' % (SECTION_OF[fmt], key, int(value))))
            elif k == 'append':
                if fmt == 'toml':
                    t = write_file(fmt, key, list(value), '')
                    if t:
                        out.append((fmt, key, 'array', t))
                else:
                    for style in ('multiline', 'single', 'double'):
                        t = write_file(fmt, key, list(value), style)
                        if t:
                            out.append((fmt, key, style, t))
            else:
                if fmt == 'toml':
                    t = write_file(fmt, key, value, '')
                    if t:
                        out.append((fmt, key, 'str', t))
                    if k == 'int' and value.lstrip('-').isdigit():
                        t = write_file(fmt, key, int(value), '')
                        if t:
                            out.append((fmt, key, 'int', t))
                else:
                    for style in ('plain', 'single', 'double', 'triple'):
                        t = write_file(fmt, key, value, style)
                        if t:
                            out.append((fmt, key, style, t))
    return out


def _same(a: Dict[str, Any], b: Dict[str, Any]) -> Optional[str]:
    if a['status'] != b['status']:
        return 'command line: %s, config file: %s' % (_brief(a), _brief(b))
    if a['status'] == 'ok' and a['opts'] != b['opts']:
        diff = {k: (a['opts'][k], b['opts'].get(k)) for k in a['opts'] if a['opts'][k] != b['opts'].get(k)}
        return 'effective options differ (command line, file): %s' % trunc(diff, 500)
    return None


def _brief(r: Dict[str, Any]) -> str:
    if r['status'] == 'ok':
        return 'ok'
    return '%s %s %s' % (r['status'], r.get('code', r.get('exc', '')), r.get('stderr', '')[-160:].strip())


def check_option_case(opt: Dict[str, Any], value: Any, fmt: str, key: str, style: str, text: str) -> List[Tuple[str, str]]:
    ref = effective(cli_args(opt, value), {})
    got = effective([], {FILE_OF[fmt]: text})
    why = _same(ref, got)
    out: List[Tuple[str, str]] = []
    if why:
        sig = 'file-vs-cli'
        if fmt == 'ini' and also_valid_toml(text):
            sig = 'pydoctor.ini-also-valid-toml'
        out.append((sig, 'option %s value %r in %s (%s) as\n%s\n-> %s' % (key, value, FILE_OF[fmt], style, text, why)))
    if got.get('warnings'):
        out.append(('spurious-warning', 'option %s value %r in %s: warnings %s' % (key, value, FILE_OF[fmt], got['warnings'])))
    return out


def check_override(opt: Dict[str, Any], v_file: Any, v_cli: Any, fmt: str, key: str, text: str) -> List[Tuple[str, str]]:
    ref = effective(cli_args(opt, v_cli), {})
    got = effective(cli_args(opt, v_cli), {FILE_OF[fmt]: text})
    why = _same(ref, got)
    if why:
        return [('cli-does-not-override', 'option %s: file value %r (%s), command-line value %r -> %s' % (key, v_file, FILE_OF[fmt], v_cli, why))]
    return []


def check_unknown_key(fmt: str, good_key: str, good_value: str) -> List[Tuple[str, str]]:
    if fmt == 'toml':
        import toml
        text = toml.dumps({'tool': {'pydoctor': {good_key: good_value, 'no-such-option-xyz': 'v'}}})
    else:
        text = '[%s]\n%s = %s\nno-such-option-xyz = v\n' % (SECTION_OF[fmt], good_key, good_value)
    ref = effective(['--%s=%s' % (good_key, good_value)], {})
    got = effective([], {FILE_OF[fmt]: text})
    out = []
    why = _same(ref, got)
    if why:
        out.append(('unknown-key-changes-config', '%s with an unknown key: %s' % (FILE_OF[fmt], why)))
    w = [x for x in got.get('warnings', []) if 'No such config option' in x]
    if len(w) != 1 or 'no-such-option-xyz' not in w[0]:
        out.append(('unknown-key-warning', '%s with an unknown key: warnings %s' % (FILE_OF[fmt], got.get('warnings'))))
    return out


def check_quoting(s: str, fmt: str, style: str, via: str) -> List[Tuple[str, str]]:
    """A string written quoted must be read back as the same text (through a str option or a list item)."""
    if via == 'str':
        key, flag, dest = 'project-name', '--project-name', 'projectname'
        text = write_file(fmt, key, s, style)
    else:
        key, flag, dest = 'intersphinx', '--intersphinx', 'intersphinx'
        text = write_file(fmt, key, ['first', s, 'last'], style)
    if text is None:
        return []
    got = effective([], {FILE_OF[fmt]: text})
    want = repr(s) if via == 'str' else repr(['first', s, 'last'])
    # The command line is the reference: a string argparse itself does not deliver unchanged (the bare '--')
    # says nothing about the config file quoting rules.
    ref = effective([flag + '=' + s] if via == 'str' else [flag + '=first', flag + '=' + s, flag + '=last'], {})
    if ref['status'] != 'ok' or ref['opts'].get(dest) != want:
        CLI_ALTERS[0] += 1
        return []
    if got['status'] != 'ok' or got['opts'].get(dest) != want:
        sig = 'quoting-roundtrip'
        if fmt == 'ini' and also_valid_toml(text):
            sig = 'pydoctor.ini-also-valid-toml'
        return [(sig, 'string %r written to %s (%s, %s) as\n%s\nis read back as %s' % (
            s, FILE_OF[fmt], style, via, text, got['opts'].get(dest) if got['status'] == 'ok' else _brief(got)))]
    return []


CLI_ALTERS = [0]


def quoting_styles(fmt: str, via: str) -> List[str]:
    if fmt == 'toml':
        return ['toml']
    return ['single', 'double', 'triple'] if via == 'str' else ['single', 'double']


# ------------------------------------------------------------------ plan / work / replay

def plan(tier: str, seed: int, scale: float = 1.0) -> List[Any]:
    n = ncpu()
    items: List[Any] = []
    nparts = 2 * n
    for part in range(nparts):
        items.append({'kind': 'options', 'part': part, 'nparts': nparts})
    L = 3 if tier == 'quick' else 4
    for part in range(nparts):
        items.append({'kind': 'quoting-enum', 'L': L, 'part': part, 'nparts': nparts})
    rn = int((3000 if tier == 'quick' else 50000) * scale)
    for i in range(n):
        items.append({'kind': 'quoting-hyp', 'n': max(1, rn // n), 'seed': seed * 1000 + i})
    items.append({'kind': 'unknown'})
    return items


def work(item: Dict[str, Any]) -> Acc:
    acc = Acc()
    kind = item['kind']

    def run(case: Dict[str, Any], d: List[Tuple[str, str]]) -> bool:
        if d:
            try:
                judge(ID, acc, case, d)
            except Violation as v:
                acc.violations.append(v.as_dict())
                return False
        return True

    if kind == 'options':
        table = option_table()
        idx = 0
        for opt in table:
            cands = candidates(opt)
            for vi, value in enumerate(cands):
                for fmt, key, style, text in file_variants(opt, value):
                    idx += 1
                    if idx % item['nparts'] != item['part']:
                        continue
                    acc.case(nontrivial=True, distinct_by_construction=True,
                             sample=({'option': key, 'value': value, 'file': FILE_OF[fmt], 'text': text} if idx % 211 == 0 else None),
                             classes=['kind-' + opt['kind'], 'fmt-' + fmt])
                    if not run({'kind': 'option', 'opt': opt, 'value': value, 'fmt': fmt, 'key': key, 'style': style, 'text': text},
                               check_option_case(opt, value, fmt, key, style, text)):
                        return acc
                    # override: another candidate on the command line
                    other = cands[(vi + 1) % len(cands)]
                    if other != value and idx % 3 == 0 and cli_args(opt, other):
                        acc.case(nontrivial=True, distinct_by_construction=True, classes=['override'])
                        if not run({'kind': 'override', 'opt': opt, 'v_file': value, 'v_cli': other, 'fmt': fmt, 'key': key, 'text': text},
                                   check_override(opt, value, other, fmt, key, text)):
                            return acc
        acc.notes['options_enumerated'] = len(table)
        acc.exhaustive_parts.append('every parser action x candidates x formats x writer styles')
    elif kind == 'quoting-enum':
        idx = 0
        for n_ in range(0, item['L'] + 1):
            for chars in itertools.product(QUOTE_ALPHABET, repeat=n_):
                s = ''.join(chars)
                for fmt in FORMATS:
                    for via in ('str', 'item'):
                        for style in quoting_styles(fmt, via):
                            idx += 1
                            if idx % item['nparts'] != item['part']:
                                continue
                            acc.case(nontrivial=bool(s), distinct_by_construction=True,
                                     sample=({'string': s, 'file': FILE_OF[fmt], 'style': style, 'via': via} if idx % 1511 == 0 else None),
                                     classes=['quoting-' + fmt])
                            if not run({'kind': 'quoting', 's': s, 'fmt': fmt, 'style': style, 'via': via}, check_quoting(s, fmt, style, via)):
                                return acc
        acc.exhaustive_parts.append('strings of length <=%d over the quoting alphabet' % item['L'])
    elif kind == 'quoting-hyp':
        from hypothesis import strategies as st
        strat = st.tuples(st.text(alphabet=st.one_of(st.sampled_from(QUOTE_ALPHABET), st.sampled_from(QUOTE_ALPHABET), st.characters(blacklist_categories=('Cs',))), min_size=3, max_size=12),
                          st.sampled_from(FORMATS), st.sampled_from(['str', 'item']), st.sampled_from(['single', 'double', 'triple']))

        def body(c):
            s, fmt, via, style = c
            if '\r' in s or '\x00' in s:
                return
            style = 'toml' if fmt == 'toml' else (style if via == 'str' or style != 'triple' else 'double')
            acc.case(key=c, nontrivial=True, sample={'string': s, 'file': FILE_OF[fmt]}, classes=['quoting-random'])
            judge(ID, acc, {'kind': 'quoting', 's': s, 'fmt': fmt, 'style': style, 'via': via}, check_quoting(s, fmt, style, via))
        hyp_run(acc, strat, body, item['n'], item['seed'])
    elif kind == 'unknown':
        for fmt in FORMATS:
            for key, val in (('docformat', 'google'), ('project-name', 'p'), ('theme', 'base')):
                acc.case(nontrivial=True, distinct_by_construction=True, classes=['unknown-key'])
                if not run({'kind': 'unknown', 'fmt': fmt, 'key': key, 'value': val}, check_unknown_key(fmt, key, val)):
                    return acc
    acc.notes['strings_the_command_line_itself_alters'] = CLI_ALTERS[0]
    return acc


def replay(case: Dict[str, Any]) -> List[Tuple[str, str]]:
    k = case['kind']
    if k == 'option':
        return check_option_case(case['opt'], case['value'], case['fmt'], case['key'], case['style'], case['text'])
    if k == 'override':
        return check_override(case['opt'], case['v_file'], case['v_cli'], case['fmt'], case['key'], case['text'])
    if k == 'unknown':
        return check_unknown_key(case['fmt'], case['key'], case['value'])
    return check_quoting(case['s'], case['fmt'], case['style'], case['via'])
