"""C14 - a displayed signature is the signature that was written.

The text content of pages.format_signature(func) is wrapped as `def f<text>: pass`, parsed with Python's own
parser and compared with the parsed source definition: parameter names, order, kinds and separators, a default
exactly where the source has one, every default and annotation O-EXPR-equal (string annotations unstringed as
Python would, Literal[...] arguments untouched), `-> None` omitted.  Overloads: every entry of
format_overloads() against its own definition, in order.
"""
from __future__ import annotations

import ast
import copy
import html
import itertools
import re
from typing import Any, Dict, Iterator, List, Optional, Sequence, Tuple

from ..core import Acc, Violation, hyp_run, judge, ncpu, trunc
from ..gen import exprs
from ..oracle import exprnorm
from ..sysutil import build

ID = "C14"
RULE = ("exhaustive: every valid parameter layout of <=4 parameters over {positional-only, positional-or-keyword, *args, "
        "keyword-only, **kwargs} x default present/absent (where Python allows) x annotation present/absent, x 4 return forms "
        "(none, None, int, 'str'), as functions and as methods; distinct by construction, non-trivial when the layout has a "
        "separator, a default or an annotation. random: 1-9 parameters with generated default/annotation expressions "
        "(incl. string annotations, nested quoted annotations, Literal), async/method/classmethod variants and @overload stacks; "
        "distinct by hash of the definition text. plus every depth-two expression of C15's reduced enumeration as positional and keyword-only default and, where legal, as annotation.")
ASSUMPTIONS = [
    "expression shapes that are open C15 findings are not used as defaults/annotations (counted as excluded): C14 measures layout",
    "string annotations are generated syntactically valid (invalid ones are C01/C16 business)",
]
ALL_EXHAUSTIVE = False
_TAG = re.compile(r'<[^>]*>')


# ------------------------------------------------------------------ layouts

def layouts(maxn: int = 4) -> Iterator[str]:
    """Parameter list texts for every valid layout with <= maxn parameters."""
    for a in range(0, maxn + 1):  # positional-only
        for b in range(0, maxn + 1 - a):  # positional-or-keyword
            for va in (0, 1):
                for c in range(0, maxn + 1 - a - b - va):  # keyword-only
                    for kw in (0, 1):
                        n = a + b + va + c + kw
                        if n > maxn:
                            continue
                        npos = a + b
                        for dstart in range(0, npos + 1):
                            for kwdefs in itertools.product((0, 1), repeat=c):
                                for anns in itertools.product((0, 1), repeat=n):
                                    yield _layout_text(a, b, va, c, kw, dstart, kwdefs, anns)


def _layout_text(a: int, b: int, va: int, c: int, kw: int, dstart: int, kwdefs: Sequence[int], anns: Sequence[int]) -> str:
    parts: List[str] = []
    k = 0
    ANN = ['int', "'str'", 'List[int]', "'Dict[str, \"C\"]'"]

    def p(name: str, default: Optional[str]) -> str:
        nonlocal k
        s = name
        if anns[k]:
            s += ': ' + ANN[k % len(ANN)]
            if default is not None:
                s += ' = ' + default
        elif default is not None:
            s += '=' + default
        k += 1
        return s
    for i in range(a):
        parts.append(p('po%d' % i, str(i + 1) if i >= dstart else None))
    if a:
        parts.append('/')
    for i in range(b):
        parts.append(p('pk%d' % i, ("'d%d'" % i) if a + i >= dstart else None))
    if va:
        parts.append('*' + p('args', None))
    elif c:
        parts.append('*')
    for i in range(c):
        parts.append(p('ko%d' % i, 'None' if kwdefs[i] else None))
    if kw:
        parts.append('**' + p('kwargs', None))
    return ', '.join(parts)


RETURNS = ['', ' -> None', ' -> int', " -> 'str'"]


# ------------------------------------------------------------------ oracle

class _Unstring(ast.NodeTransformer):
    """String annotations as Python evaluates them (typing.get_type_hints): the string is the expression;
    arguments of Literal[...] are values, not annotations."""

    def visit_Constant(self, node: ast.Constant) -> Any:
        if isinstance(node.value, str):
            inner = ast.parse(node.value, mode='eval').body
            return self.visit(inner)
        return node

    def visit_Subscript(self, node: ast.Subscript) -> Any:
        v = self.visit(node.value)
        is_lit = (isinstance(v, ast.Name) and v.id == 'Literal') or (isinstance(v, ast.Attribute) and v.attr == 'Literal')
        sl = node.slice if is_lit else self.visit(node.slice)
        return ast.Subscript(value=v, slice=sl, ctx=node.ctx)


def _ann_dump(n: Optional[ast.AST], unstring: bool) -> Optional[str]:
    if n is None:
        return None
    n = exprnorm.clone(n)
    if unstring:
        n = _Unstring().visit(n)
    return exprnorm.norm_dump(n)


def compare_defs(src_def: ast.AST, shown_sig: str, what: str) -> Optional[str]:
    """src_def: FunctionDef from the source; shown_sig: visible text '(...) -> ...'."""
    try:
        shown_def = ast.parse('def f%s: pass' % shown_sig).body[0]
    except SyntaxError as e:
        return '%s: displayed signature %r does not read back as Python (%s)' % (what, shown_sig, e.msg)
    sa, da = src_def.args, shown_def.args  # type: ignore
    for field in ('posonlyargs', 'args', 'kwonlyargs'):
        sn = [a.arg for a in getattr(sa, field)]
        dn = [a.arg for a in getattr(da, field)]
        if sn != dn:
            return '%s: %s are %s in the source but %s as displayed %r' % (what, field, sn, dn, shown_sig)
    for field in ('vararg', 'kwarg'):
        s_, d_ = getattr(sa, field), getattr(da, field)
        if (s_.arg if s_ else None) != (d_.arg if d_ else None):
            return '%s: %s differs: source %r, displayed %r' % (what, field, s_ and s_.arg, d_ and d_.arg)
    if len(sa.defaults) != len(da.defaults):
        return '%s: %d positional defaults in the source, %d displayed: %r' % (what, len(sa.defaults), len(da.defaults), shown_sig)
    for i, (x, y) in enumerate(zip(sa.defaults, da.defaults)):
        if _ann_dump(x, False) != _ann_dump(y, False):
            return '%s: positional default #%d differs: source %s displayed %s (%r)' % (what, i, ast.unparse(x), ast.unparse(y), shown_sig)
    for i, (x, y) in enumerate(zip(sa.kw_defaults, da.kw_defaults)):
        if (x is None) != (y is None):
            return '%s: keyword-only parameter #%d default presence differs (%r)' % (what, i, shown_sig)
        if x is not None and _ann_dump(x, False) != _ann_dump(y, False):
            return '%s: keyword-only default #%d differs: source %s displayed %s' % (what, i, ast.unparse(x), ast.unparse(y))
    sargs = list(sa.posonlyargs) + list(sa.args) + ([sa.vararg] if sa.vararg else []) + list(sa.kwonlyargs) + ([sa.kwarg] if sa.kwarg else [])
    dargs = list(da.posonlyargs) + list(da.args) + ([da.vararg] if da.vararg else []) + list(da.kwonlyargs) + ([da.kwarg] if da.kwarg else [])
    for x, y in zip(sargs, dargs):
        if _ann_dump(x.annotation, True) != _ann_dump(y.annotation, False):
            return '%s: annotation of %s differs: source %s displayed %s' % (
                what, x.arg, x.annotation and ast.unparse(x.annotation), y.annotation and ast.unparse(y.annotation))
    sret = src_def.returns  # type: ignore
    if sret is not None and isinstance(sret, ast.Constant) and sret.value is None:
        sret = None
    if _ann_dump(sret, True) != _ann_dump(shown_def.returns, False):  # type: ignore
        return '%s: return annotation differs: source %s displayed %s' % (
            what, sret and ast.unparse(sret), shown_def.returns and ast.unparse(shown_def.returns))  # type: ignore
    return None


def _text(flattenable: Any) -> str:
    from pydoctor.stanutils import flatten
    return html.unescape(_TAG.sub('', flatten(flattenable)))


def check_module(src: str) -> Tuple[List[Tuple[str, str]], int]:
    """Every function/method definition of the generated module against its displayed signature."""
    from pydoctor import model
    from pydoctor.templatewriter import pages
    s = build([('m', None, False, src)])
    tree = ast.parse(src)
    out: List[Tuple[str, str]] = []
    n = 0

    def visit(body: Sequence[ast.stmt], prefix: str) -> None:
        nonlocal n
        groups: Dict[str, List[ast.AST]] = {}
        order: List[str] = []
        for st_ in body:
            if isinstance(st_, ast.ClassDef):
                visit(st_.body, prefix + st_.name + '.')
            elif isinstance(st_, (ast.FunctionDef, ast.AsyncFunctionDef)):
                if st_.name not in groups:
                    order.append(st_.name)
                groups.setdefault(st_.name, []).append(st_)
        for name in order:
            defs = groups[name]
            fn = s.allobjects.get(prefix + name)
            what = prefix + name
            if not isinstance(fn, model.Function):
                out.append(('function-missing', '%s is not documented as a function (%r)' % (what, fn)))
                continue
            n += 1
            if len(defs) == 1:
                shown = _text(pages.format_signature(fn))
                why = compare_defs(defs[0], shown, what)
                if why:
                    out.append(('signature-differs', why))
                whole = _text(pages.format_function_def(fn.name, fn.is_async, fn))
                want_kw = 'async def' if isinstance(defs[0], ast.AsyncFunctionDef) else 'def'
                if not whole.startswith('%s %s(' % (want_kw, name)) or not whole.endswith(':'):
                    out.append(('definition-line', '%s: definition line is %r' % (what, whole)))
            else:
                # overload stack: all but the last are @overload, the last one is the implementation
                entries = [e for e in pages.format_overloads(fn)]
                divs = [_text(e) for e in entries if getattr(e, 'tagName', None) == 'div']
                want = defs[:-1]
                if len(divs) != len(want):
                    out.append(('overload-count', '%s: %d overloads in the source, %d displayed' % (what, len(want), len(divs))))
                    continue
                for i, (d, shown_line) in enumerate(zip(want, divs)):
                    m = re.match(r'(async def|def) %s(.*):$' % re.escape(name), shown_line, re.S)
                    if not m:
                        out.append(('definition-line', '%s overload %d: definition line is %r' % (what, i, shown_line)))
                        continue
                    why = compare_defs(d, m.group(2), '%s overload #%d' % (what, i))
                    if why:
                        out.append(('overload-differs', why))
    visit(tree.body, 'm.')
    seen = set()
    res = []
    for sig, msg in out:
        if sig not in seen:
            seen.add(sig)
            res.append((sig, msg))
    return res, n


# ------------------------------------------------------------------ random definitions

_c15_ok: Dict[str, bool] = {}


def expr_ok(text: str) -> bool:
    """Is this expression displayed faithfully by the colouriser (C15's business)?"""
    if text not in _c15_ok:
        from . import c15
        try:
            # faithful AND shown completely (a visibly truncated default is allowed by C15 and says nothing about layout)
            _c15_ok[text] = (not c15.check_text(text, 'inline')) and c15.render(text, 'inline')[1]
        except Exception:
            _c15_ok[text] = False
    return _c15_ok[text]


STR_ANNS = ["'int'", "'List[int]'", "'List[\"int\"]'", "'Dict[str, \"Tuple[int, ...]\"]'", "Optional['C']", "List['a.b']", "Literal['x', \"y\"]",
            "typing.Literal['a b']", "'Literal[\"q\"]'", "Callable[['int'], 'str']", "'Callable[..., None]'", "Union['int', None]", "'a | b'", "\"'nested'\""]


def st_def():
    from hypothesis import strategies as st
    e = exprs.st_expr(3)
    def no_str(t: str) -> bool:
        return not any(isinstance(n, (ast.Constant, ast.JoinedStr)) and isinstance(getattr(n, 'value', ''), str) or isinstance(n, ast.JoinedStr)
                       for n in ast.walk(ast.parse(t, mode='eval')))
    ann = st.one_of(st.sampled_from(STR_ANNS), st.sampled_from(['int', 'List[int]', 'a.b', 'Optional[int]', 'Callable[..., int]', 'int | None']), e.filter(no_str))

    @st.composite
    def d(draw):
        a = draw(st.integers(0, 2)); b = draw(st.integers(0, 4)); va = draw(st.integers(0, 1)); c = draw(st.integers(0, 3)); kw = draw(st.integers(0, 1))
        npos = a + b
        dstart = draw(st.integers(0, npos))
        parts: List[str] = []
        method = draw(st.sampled_from(['', 'method', 'classmethod', 'staticmethod']))
        idx = 0

        def p(name: str, default: Optional[str]) -> str:
            s = name
            if draw(st.booleans()):
                s += ': ' + draw(ann)
                if default is not None:
                    s += ' = ' + default
            elif default is not None:
                s += '=' + default
            return s
        first = {'method': 'self', 'classmethod': 'cls'}.get(method)
        user = ['po%d' % i for i in range(a)] + ['pk%d' % i for i in range(b)]
        if first:
            parts.append(first)
        for i, nm in enumerate(user):
            parts.append(p(nm, draw(e) if i >= dstart else None))
            if a and i == a - 1:
                parts.append('/')
        if va:
            parts.append('*' + p('args', None))
        elif c:
            parts.append('*')
        for i in range(c):
            parts.append(p('ko%d' % i, draw(e) if draw(st.booleans()) else None))
        if kw:
            parts.append('**' + p('kwargs', None))
        ret = draw(st.one_of(st.just(''), st.just(' -> None'), ann.map(lambda x: ' -> ' + x)))
        is_async = draw(st.integers(0, 4)) == 0
        noverloads = draw(st.sampled_from([0, 0, 0, 2, 3]))
        return {'params': ', '.join(parts), 'ret': ret, 'async': is_async, 'method': method, 'overloads': noverloads}
    return d()


def def_to_source(c: Dict[str, Any], extra_overloads: Sequence[Dict[str, Any]] = ()) -> str:
    lines = ['from typing import overload, List, Dict, Optional, Callable, Union, Literal, Tuple', 'import typing']
    ind = ''
    if c['method']:
        lines.append('class K:')
        ind = '    '

    def one(cc: Dict[str, Any], deco: List[str]) -> None:
        for d in deco:
            lines.append(ind + '@' + d)
        lines.append('%s%sdef f(%s)%s:' % (ind, 'async ' if cc['async'] else '', cc['params'], cc['ret']))
        lines.append(ind + '    pass')
    deco = [c['method']] if c['method'] in ('classmethod', 'staticmethod') else []
    for o in extra_overloads:
        one(dict(o, method=c['method'], **{'async': c['async']}), ['overload'] + deco)
    one(c, deco)
    return '\n'.join(lines) + '\n'


def _exprs_of_def(src: str) -> List[str]:
    out = []
    for n in ast.walk(ast.parse(src)):
        if isinstance(n, (ast.FunctionDef, ast.AsyncFunctionDef)):
            a = n.args
            for x in list(a.defaults) + [k for k in a.kw_defaults if k is not None]:
                out.append(ast.unparse(x))
            for arg in list(a.posonlyargs) + list(a.args) + list(a.kwonlyargs) + [z for z in (a.vararg, a.kwarg) if z]:
                if arg.annotation is not None:
                    out.append(ast.unparse(_Unstring().visit(exprnorm.clone(arg.annotation))))
            if n.returns is not None:
                out.append(ast.unparse(_Unstring().visit(exprnorm.clone(n.returns))))
    return out


# ------------------------------------------------------------------ plan / work / replay

def plan(tier: str, seed: int, scale: float = 1.0) -> List[Any]:
    n = ncpu()
    items: List[Any] = [{'kind': 'layouts', 'part': i, 'nparts': 2 * n, 'maxn': 4} for i in range(2 * n)]
    # every expression of depth two (C15's reduced enumeration) as a default and, where it can be one, as an annotation
    items += [{'kind': 'depth2', 'part': i, 'nparts': n} for i in range(n)]
    rn = int((1600 if tier == 'quick' else 30000) * scale)
    for i in range(n):
        items.append({'kind': 'random', 'n': max(1, rn // n), 'seed': seed * 1000 + i})
    return items


def work(item: Dict[str, Any]) -> Acc:
    acc = Acc()
    if item['kind'] == 'layouts':
        chunk: List[str] = []
        idx = 0

        def flush() -> bool:
            if not chunk:
                return True
            lines = ['from typing import overload, List, Dict, Optional, Callable, Union, Literal, Tuple']
            for i, (params, ret) in enumerate(chunk):
                lines.append('def f%d(%s)%s: pass' % (i, params, ret))
            lines.append('class K:')
            for i, (params, ret) in enumerate(chunk):
                sp = ('self, ' + params) if params and not params.startswith('po') else ('self' if not params else None)
                if sp is None:  # positional-only first: self joins them
                    sp = 'self, ' + params
                lines.append('    def g%d(%s)%s: pass' % (i, sp, ret))
            src = '\n'.join(lines) + '\n'
            d, n = check_module(src)
            if n != 2 * len(chunk):
                acc.errors.append('layout module documented %d of %d functions' % (n, 2 * len(chunk)))
            if d:
                try:
                    judge(ID, acc, {'kind': 'module', 'src': src}, d)
                except Violation as v:
                    # reduce to the single failing definition
                    for ln in lines[1:]:
                        body = 'from typing import overload, List, Dict\n' + (ln if not ln.startswith('    ') else 'class K:\n' + ln) + '\n'
                        try:
                            dd, _ = check_module(body)
                        except Exception:
                            continue
                        if any(s == v.sig for s, _m in dd):
                            v.case = {'kind': 'module', 'src': body}
                            break
                    acc.violations.append(v.as_dict())
                    return False
            chunk.clear()
            return True
        for params in layouts(item['maxn']):
            for ret in RETURNS:
                idx += 1
                if idx % item['nparts'] != item['part']:
                    continue
                nt = bool(params) and any(t in params for t in ('/', '*', '=', ':'))
                acc.case(nontrivial=nt, distinct_by_construction=True,
                         sample=({'def': 'def f(%s)%s' % (params, ret)} if idx % 2003 == 0 else None))
                acc.evals += 1  # the method variant
                if nt:
                    acc.nontrivial_counted += 1
                chunk.append((params, ret))
                if len(chunk) >= 150:
                    if not flush():
                        return acc
        flush()
        acc.exhaustive_parts.append('all parameter layouts <=%d parameters x 4 return forms x {function, method}' % item['maxn'])
    elif item['kind'] == 'depth2':
        def annotation_ok(t: str) -> bool:
            try:
                tree = ast.parse(t, mode='eval')
            except SyntaxError:
                return False
            return not any(isinstance(n, (ast.JoinedStr, ast.Starred, ast.NamedExpr, ast.Yield, ast.YieldFrom, ast.Await)) or
                           (isinstance(n, ast.Constant) and isinstance(n.value, (str, bytes))) for n in ast.walk(tree))
        todo = [t for i, (_n, t) in enumerate(exprs.depth2(True)) if i % item['nparts'] == item['part']]
        batch: List[str] = []

        def run_batch() -> bool:
            if not batch:
                return True
            src = 'from typing import List, Dict\n' + '\n'.join(batch) + '\n'
            d, _n = check_module(src)
            if d:
                try:
                    judge(ID, acc, {'kind': 'module', 'src': src}, d)
                except Violation as v:
                    for ln in batch:
                        try:
                            dd, _ = check_module(ln + '\n')
                        except Exception:
                            continue
                        if any(sg == v.sig for sg, _m in dd):
                            v.case = {'kind': 'module', 'src': ln + '\n'}
                            break
                    acc.violations.append(v.as_dict())
                    return False
            batch.clear()
            return True
        for i, t in enumerate(todo):
            if not expr_ok(t):
                acc.excluded['uses-expression-with-open-C15-finding-or-truncated'] += 1
                continue
            acc.case(nontrivial=True, distinct_by_construction=True, sample=({'default_and_annotation': t} if i % 300 == 0 else None), classes=['depth2-default'])
            if annotation_ok(t):
                batch.append('def d%d(p=%s, *, q: %s = None, r=%s) -> %s: pass' % (i, t, t, t, t))
            else:
                batch.append('def d%d(p=%s, *, r=%s): pass' % (i, t, t))
            if len(batch) >= 120 and not run_batch():
                return acc
        run_batch()
        acc.exhaustive_parts.append('every depth-two expression (reduced enumeration) as positional and keyword-only default and, where legal, as annotation and return annotation')
    else:
        from hypothesis import strategies as st
        strat = st.tuples(st_def(), st.lists(st_def(), min_size=3, max_size=3))

        def body(c):
            main, others = c
            ovs = others[:main['overloads']]
            src = def_to_source(main, ovs)
            try:
                ast.parse(src)
            except SyntaxError:
                return
            try:
                used = _exprs_of_def(src)
            except (SyntaxError, ValueError):
                return  # a string annotation that is not an expression: outside the domain
            bad = [e for e in used if not expr_ok(e)]
            if bad:
                acc.excluded['uses-expression-with-open-C15-finding-or-truncated'] += 1
                return
            classes = ['random']
            if ovs:
                classes.append('overloads')
            if main['method']:
                classes.append(main['method'])
            acc.case(key=src, nontrivial=True, sample={'src': src}, classes=classes)
            d, _n = check_module(src)
            judge(ID, acc, {'kind': 'module', 'src': src}, d)
        hyp_run(acc, strat, body, item['n'], item['seed'])
    return acc


def replay(case: Dict[str, Any]) -> List[Tuple[str, str]]:
    return check_module(case['src'])[0]
