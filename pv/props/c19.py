"""C19 - visitor extensions see a balanced, ordered walk whatever the main visitor prunes.

Sub-checks
  enum     exhaustive: ordered trees <= N nodes x pruning action per node (raised by the main
           visit_) x extension timing sets; real pydoctor.visitor.Visitor.walkabout trace vs
           pv.oracle.visitref (expected trace + invariants)
  hyp      larger random trees
  builder  generated modules through the real ASTBuilder with recording extensions of the four
           timings and a recording main visitor: balanced/nested/ordered trace, scope stack empty
"""
from __future__ import annotations

import itertools
from typing import Any, Dict, List, Optional, Sequence, Tuple

from ..core import Acc, Violation, hyp_run, judge, ncpu
from ..oracle import visitref

ID = "C19"
RULE = ("enum: every ordered rooted tree with <=N nodes x every assignment of {none, SkipChildren, SkipSiblings, "
        "SkipNode, SkipDeparture} to the nodes (raised in the main visitor's visit_) x 20 extension-timing sets "
        "(all subsets of BEFORE/AFTER/INNER/OUTTER + two extensions of one timing); distinct by construction, "
        "non-trivial when >=1 node prunes and >=1 extension is registered. hyp: random trees of 5..12 nodes. "
        "builder: generated modules walked by the real ASTBuilder with 4-5 recording extensions; non-trivial when the "
        "main visitor pruned >=1 node (its depart_ was skipped) and a nested scope was pushed; distinct by source hash.")
ASSUMPTIONS = [
    "pruning raised by extensions or from depart_ methods is outside the statement and not generated",
    "visitref.expected_trace is the reading of the docstrings of SkipChildren/SkipSiblings/SkipNode/SkipDeparture and When",
]
ALL_EXHAUSTIVE = False

ACTIONS = [None, 'SkipChildren', 'SkipSiblings', 'SkipNode', 'SkipDeparture']
WHENS = ['BEFORE', 'AFTER', 'INNER', 'OUTTER']


def ext_configs() -> List[List[Tuple[str, str]]]:
    out = []
    for r in range(0, 5):
        for sub in itertools.combinations(WHENS, r):
            out.append([("e%d_%s" % (i, w), w) for i, w in enumerate(sub)])
    for w in WHENS:
        out.append([("e0_" + w, w), ("e1_" + w, w)])
    return out


def tree_shapes(n: int):
    """All ordered rooted trees with n nodes as preorder depth sequences."""
    def rec(seq):
        if len(seq) == n:
            yield list(seq)
            return
        for d in range(1, seq[-1] + 2):
            seq.append(d)
            yield from rec(seq)
            seq.pop()
    yield from rec([0])


def depths_to_tree(depths: Sequence[int]) -> Dict[int, List[int]]:
    tree: Dict[int, List[int]] = {i: [] for i in range(len(depths))}
    stack: List[int] = []
    for i, d in enumerate(depths):
        while len(stack) > d:
            stack.pop()
        if stack:
            tree[stack[-1]].append(i)
        stack.append(i)
    return tree


def run_real(tree: Dict[int, List[int]], action: Dict[int, Optional[str]], exts: Sequence[Tuple[str, str]],
             method: str = 'walkabout') -> Tuple[List[Tuple[str, str, int]], Optional[str]]:
    from pydoctor import visitor

    trace: List[Tuple[str, str, int]] = []

    class N:
        def __init__(self, i: int) -> None:
            self.i = i
            self.children: List['N'] = []

    nodes = {i: N(i) for i in tree}
    for p, cs in tree.items():
        nodes[p].children = [nodes[c] for c in cs]

    class Main(visitor.Visitor):
        @classmethod
        def get_children(cls, ob):
            return ob.children

        def visit_N(self, ob):
            trace.append(('main', 'visit', ob.i))
            a = action.get(ob.i)
            if a:
                raise getattr(self, a)()

        def depart_N(self, ob):
            trace.append(('main', 'depart', ob.i))

    classes = []
    for eid, when in exts:
        def mk(eid=eid, when=when):
            class E(visitor.VisitorExt):
                pass
            E.when = getattr(visitor.When, when)
            E.visit_N = lambda self, ob: trace.append((eid, 'visit', ob.i))
            E.depart_N = lambda self, ob: trace.append((eid, 'depart', ob.i))
            return E
        classes.append(mk())
    m = Main(visitor.ExtList(*classes))
    err = None
    try:
        getattr(m, method)(nodes[0])
    except BaseException as e:  # anything escaping the walk is itself a discrepancy
        err = "%s: %s" % (type(e).__name__, e)
    return trace, err


def check_abstract(depths: Sequence[int], actions: Sequence[Optional[str]], exts: Sequence[Tuple[str, str]]) -> List[Tuple[str, str]]:
    tree = depths_to_tree(depths)
    action = {i: a for i, a in enumerate(actions)}
    trace, err = run_real(tree, action, exts)
    out: List[Tuple[str, str]] = []
    desc = "tree(depths)=%s actions=%s exts=%s" % (list(depths), list(actions), [w for _e, w in exts])
    if err:
        out.append(('walk-raises', "%s: walkabout raised %s" % (desc, err)))
    inv = visitref.invariants(trace, tree)
    if inv:
        out.append(('unbalanced', "%s: %s" % (desc, '; '.join(inv[:4]))))
    want = visitref.expected_trace(tree, action, exts)
    if not out and trace != want:
        k = 0
        while k < min(len(trace), len(want)) and trace[k] == want[k]:
            k += 1
        out.append(('order', "%s: trace differs from the documented order at event %d: got %s, expected %s" % (
            desc, k, trace[k:k + 3], want[k:k + 3])))
    # walk() (no departures): every node entered at most once, extensions in the documented order
    trace2, err2 = run_real(tree, action, exts, 'walk')
    seen = set()
    for w, k_, n in trace2:
        if k_ == 'visit':
            if (w, n) in seen:
                out.append(('unbalanced', "%s: walk(): %s enters node %d twice" % (desc, w, n)))
            seen.add((w, n))
    return out


def check_extprune(depths: Sequence[int], node: int, exc: str, when: str, others: Sequence[str]) -> List[Tuple[str, str]]:
    """An *extension* raises a pruning exception from its visit method at one node.  What that means for the rest of the walk is
    not documented; the one clause that is asserted: every extension that entered a node also leaves it, exactly once."""
    from pydoctor import visitor
    tree = depths_to_tree(depths)
    trace: List[Tuple[str, str, int]] = []

    class N:
        def __init__(self, i: int) -> None:
            self.i = i
            self.children: List['N'] = []
    nodes = {i: N(i) for i in tree}
    for p_, cs in tree.items():
        nodes[p_].children = [nodes[c] for c in cs]

    class Main(visitor.Visitor):
        @classmethod
        def get_children(cls, ob):
            return ob.children

        def visit_N(self, ob):
            trace.append(('main', 'visit', ob.i))

        def depart_N(self, ob):
            trace.append(('main', 'depart', ob.i))

    def mk(eid: str, w: str, raises: bool):
        class E(visitor.VisitorExt):
            pass
        E.when = getattr(visitor.When, w)

        def visit_N(self, ob):
            trace.append((eid, 'visit', ob.i))
            if raises and ob.i == node:
                raise getattr(Main, exc)()
        E.visit_N = visit_N
        E.depart_N = lambda self, ob: trace.append((eid, 'depart', ob.i))
        return E
    classes = [mk('pruner_' + when, when, True)] + [mk('e%d_%s' % (i, w), w, False) for i, w in enumerate(others)]
    desc = "tree(depths)=%s, extension %s raises %s at node %d, other extensions %s" % (list(depths), when, exc, node, list(others))
    try:
        Main(visitor.ExtList(*classes)).walkabout(nodes[0])
    except BaseException as e:
        return [('walk-raises', '%s: walkabout raised %s: %s' % (desc, type(e).__name__, e))]
    out: List[Tuple[str, str]] = []
    for who in sorted({w for w, _k, _n in trace if w != 'main'}):
        for n in tree:
            v = sum(1 for w, k, i in trace if w == who and k == 'visit' and i == n)
            d = sum(1 for w, k, i in trace if w == who and k == 'depart' and i == n)
            if v > 1:
                out.append(('unbalanced', '%s: %s enters node %d %d times' % (desc, who, n, v)))
            elif v == 1 and d != 1:
                out.append(('unbalanced', '%s: %s entered node %d and left it %d times' % (desc, who, n, d)))
    return out[:2]


# ------------------------------------------------------------------ real builder

def _builder_case(src: str) -> Tuple[List[Tuple[str, str]], Dict[str, Any]]:
    import ast
    from pydoctor import astbuilder, extensions, model, visitor

    trace: List[Tuple[str, str, int]] = []
    ids: Dict[int, int] = {}
    stacks: List[str] = []

    keep: List[ast.AST] = []  # keeps nodes alive so id() values are never reused

    def nid(node: ast.AST) -> int:
        if id(node) not in ids:
            ids[id(node)] = len(ids)
            keep.append(node)
        return ids[id(node)]

    class Rec(visitor._BaseVisitor):
        def visit(self, ob):
            trace.append(('main', 'visit', nid(ob)))
            super().visit(ob)

        def depart(self, ob):
            trace.append(('main', 'depart', nid(ob)))
            super().depart(ob)

    class RecVis(astbuilder.ModuleVistor, Rec):
        pass

    builders: List[Any] = []

    class RecBuilder(astbuilder.ASTBuilder):
        ModuleVistor = RecVis

        def __init__(self, system):
            super().__init__(system)
            builders.append(self)

        def processModuleAST(self, mod_ast, mod):
            try:
                super().processModuleAST(mod_ast, mod)
            finally:
                if self._stack or self.current is not None or self.currentMod is not None:
                    stacks.append("after %s: _stack=%r current=%r currentMod=%r" % (mod.fullName(), self._stack, self.current, self.currentMod))

    def mkext(eid: str, when: str):
        class E(extensions.ModuleVisitorExt):
            def visit(self, ob):
                trace.append((eid, 'visit', nid(ob)))

            def depart(self, ob):
                trace.append((eid, 'depart', nid(ob)))
        E.when = getattr(visitor.When, when)
        return E

    exts = [("e%d_%s" % (i, w), w) for i, w in enumerate(WHENS)] + [("e4_INNER", "INNER")]

    class Sys(model.System):
        defaultBuilder = RecBuilder

    s = Sys()
    s.options.verbosity = -10
    for eid, when in exts:
        s._astbuilder_visitors.append(mkext(eid, when))
    b = s.systemBuilder(s)
    b.addModuleString("class Base:\n    def m(self): pass\nX = 1\n", 'dep')
    b.addModuleString(src, 'mod')
    import io, contextlib
    buf = io.StringIO()
    crashed = None
    with contextlib.redirect_stdout(buf):
        try:
            b.buildModules()
        except Exception as e:  # a crash of the builder is C01's business, not a C19 verdict
            crashed = type(e).__name__
    if crashed:
        return [], {'nodes': 0, 'pruned': 0, 'objects': 0, 'crashed': crashed}
    out: List[Tuple[str, str]] = []
    if stacks:
        out.append(('scope-stack', stacks[0]))
    # per-node ordering and balance, without knowing what the builder prunes
    per_node: Dict[int, List[Tuple[str, str]]] = {}
    # Only nodes reached by the walk itself (the module and statements in a body) have enter/leave pairs;
    # expression nodes are entered through the explicit generic_visit() helper of visit_Expr, which by its
    # documentation calls visit() only.
    walked = {i for i, node in enumerate(keep) if isinstance(node, (ast.mod, ast.stmt))}
    trace = [t for t in trace if t[2] in walked]
    for w, k, n in trace:
        per_node.setdefault(n, []).append((w, k))
    when_of = dict(exts)
    pruned = 0
    for n, evs in per_node.items():
        whos = [w for w, k in evs if k == 'visit']
        if len(whos) != len(set(whos)):
            out.append(('unbalanced', "node %d entered twice by one visitor: %s" % (n, evs)))
            break
        vis = [w for w, k in evs if k == 'visit']
        dep = [w for w, k in evs if k == 'depart']
        for e in when_of:
            if (e in vis) != (e in dep):
                out.append(('unbalanced', "extension %s entered node %d %d times and left it %d times" % (e, n, vis.count(e), dep.count(e))))
                break
        if 'main' in vis:
            mi = vis.index('main')
            for e in vis[:mi]:
                if when_of[e] not in ('BEFORE', 'OUTTER'):
                    out.append(('order', "%s (%s) visited node %d before the main visitor" % (e, when_of[e], n)))
            for e in vis[mi + 1:]:
                if when_of[e] not in ('AFTER', 'INNER'):
                    out.append(('order', "%s (%s) visited node %d after the main visitor" % (e, when_of[e], n)))
        if 'main' in dep:
            mi = dep.index('main')
            for e in dep[:mi]:
                if when_of[e] not in ('BEFORE', 'INNER'):
                    out.append(('order', "%s (%s) left node %d before the main visitor" % (e, when_of[e], n)))
            for e in dep[mi + 1:]:
                if when_of[e] not in ('AFTER', 'OUTTER'):
                    out.append(('order', "%s (%s) left node %d after the main visitor" % (e, when_of[e], n)))
        elif 'main' in vis:
            pruned += 1
    # nesting per extension
    for e in when_of:
        stack: List[int] = []
        for w, k, n in trace:
            if w != e:
                continue
            if k == 'visit':
                stack.append(n)
            else:
                if not stack or stack[-1] != n:
                    out.append(('unbalanced', "extension %s leaves node %d while innermost entered is %s" % (e, n, stack[-1] if stack else None)))
                    break
                stack.pop()
        else:
            if stack:
                out.append(('unbalanced', "extension %s never left nodes %s" % (e, stack)))
    info = {'nodes': len(per_node), 'pruned': pruned, 'objects': len(s.allobjects)}
    dedup: List[Tuple[str, str]] = []
    seen = set()
    for sig, msg in out:
        if sig not in seen:
            seen.add(sig)
            dedup.append((sig, msg))
    return dedup, info


# ------------------------------------------------------------------ plan / work / replay

def plan(tier: str, seed: int, scale: float = 1.0) -> List[Any]:
    n = ncpu()
    N = 4 if tier == 'quick' else 5
    items: List[Any] = []
    for size in range(1, N + 1):
        shapes = list(tree_shapes(size))
        for si, sh in enumerate(shapes):
            items.append({'kind': 'enum', 'depths': sh})
    items.append({'kind': 'extprune'})
    hn = int((4000 if tier == 'quick' else 200000) * scale)
    for i in range(n):
        items.append({'kind': 'hyp', 'n': hn // n, 'seed': seed * 1000 + i})
    bn = int((1000 if tier == 'quick' else 20000) * scale)
    for i in range(n):
        items.append({'kind': 'builder', 'n': bn // n, 'seed': seed * 1000 + 100 + i})
    return items


def _st_tree():
    from hypothesis import strategies as st

    @st.composite
    def t(draw):
        n = draw(st.integers(5, 12))
        depths = [0]
        for _ in range(n - 1):
            depths.append(draw(st.integers(1, depths[-1] + 1)))
        actions = [draw(st.sampled_from(ACTIONS + [None, None])) for _ in range(n)]
        cfg = draw(st.sampled_from(ext_configs()))
        return {'kind': 'abstract', 'depths': depths, 'actions': actions, 'exts': [list(e) for e in cfg]}
    return t()


def work(item: Dict[str, Any]) -> Acc:
    acc = Acc()
    kind = item['kind']
    if kind == 'enum':
        depths = item['depths']
        cfgs = ext_configs()
        for actions in itertools.product(ACTIONS, repeat=len(depths)):
            for cfg in cfgs:
                nt = any(actions) and bool(cfg)
                acc.case(nontrivial=nt, distinct_by_construction=True)
                d = check_abstract(depths, actions, cfg)
                if d:
                    try:
                        judge(ID, acc, {'kind': 'abstract', 'depths': depths, 'actions': list(actions), 'exts': [list(e) for e in cfg]}, d)
                    except Violation as v:
                        acc.violations.append(v.as_dict())
                        return acc
        acc.samples.append({'tree_depths': depths, 'action_assignments': len(ACTIONS) ** len(depths), 'ext_configs': len(cfgs)})
        acc.exhaustive_parts.append("all trees<=N nodes x actions x 20 ext configs")
        acc.classes['tree-size-%d' % len(depths)] += len(ACTIONS) ** len(depths) * len(cfgs)
    elif kind == 'extprune':
        for size in range(1, 5):
            for depths in tree_shapes(size):
                for node in range(size):
                    for exc in ('SkipNode', 'SkipChildren', 'SkipSiblings', 'SkipDeparture'):
                        for when in WHENS:
                            for others in ([], ['BEFORE', 'AFTER'], ['INNER', 'OUTTER'], [when]):
                                acc.case(nontrivial=True, distinct_by_construction=True, classes=['extension-prunes'])
                                d = check_extprune(depths, node, exc, when, others)
                                if d:
                                    try:
                                        judge(ID, acc, {'kind': 'extprune', 'depths': depths, 'node': node, 'exc': exc, 'when': when, 'others': others}, d)
                                    except Violation as v:
                                        acc.violations.append(v.as_dict())
                                        return acc
        acc.exhaustive_parts.append('a pruning exception raised by one extension: all trees<=4 nodes x node x 4 exceptions x 4 timings x 4 companion sets')
    elif kind == 'hyp':
        def body(c):
            acc.case(key=c, nontrivial=any(c['actions']) and bool(c['exts']), sample=c, classes=['hyp-tree'])
            judge(ID, acc, c, check_abstract(c['depths'], c['actions'], [tuple(e) for e in c['exts']]))
        hyp_run(acc, _st_tree(), body, item['n'], item['seed'])
    elif kind == 'builder':
        from ..gen import pysource
        def body2(src):
            d, info = _builder_case(src)
            if info.get('crashed'):
                acc.classes['builder-crashed-' + info['crashed']] += 1
                acc.inconclusive += 1
                return
            acc.case(key=src, nontrivial=info['pruned'] > 0 and info['objects'] > 4,
                     sample={'source': src, 'info': info}, classes=['builder', 'builder-pruned' if info['pruned'] else 'builder-nopruning'])
            judge(ID, acc, {'kind': 'builder', 'src': src}, d)
        hyp_run(acc, pysource.modules(), body2, item['n'], item['seed'])
    return acc


def replay(case: Dict[str, Any]) -> List[Tuple[str, str]]:
    if case.get('kind') == 'builder':
        return _builder_case(case['src'])[0]
    if case.get('kind') == 'extprune':
        return check_extprune(case['depths'], case['node'], case['exc'], case['when'], case['others'])
    return check_abstract(case['depths'], case['actions'], [tuple(e) for e in case['exts']])
