"""C06 - the result does not depend on the order in which modules are analysed.

The schedule is a generated input: every DFS pre-order of the package tree with arbitrary sibling order and arbitrary
root order (exactly the orders reachable by renaming modules or reordering the command line), applied by ordering
System.unprocessed_modules before process().  Exhaustive when there are <= 120 orders, else 64 sampled.
Oracle: the canonical dump (sorted registry: type, kind, docstring, bases, resolved base objects, linearisation; the
key is the re-export location) is identical for all schedules.  For projects with import cycles only the class-hierarchy
part is compared, as the statement says.
"""
from __future__ import annotations

import os
from typing import Any, Dict, List, Optional, Tuple

from ..core import Acc, REPO, Violation, hyp_run, judge, ncpu, trunc
from ..gen import rexproj
from ..sysutil import files_to_mods
from .c07 import MAX_ORDERS, SAMPLED_ORDERS, STALE, build_in_order, orders_for

ID = "C06"
RULE = ("generated packages with cross-module bases, star imports, __all__ re-exports (one re-exporter per object), explicit import "
        "cycles and consumer modules named to sort before/after the modules they depend on; real test packages in the thorough tier; "
        "x every reachable processing order (thorough: exhaustive when <= 120, else 64 evenly spaced; quick: exhaustive when <= 24, else 32). Non-trivial when >=2 orders exist in which some imported "
        "module is processed after its importer; distinct by hash of the abstract project. Plus an exhaustive family of 144 small projects in which an import cycle leaves a base unresolved "
        "and the subclass is re-exported into a module that binds the base's name to a function, a constant, a module or nothing; and of 72 projects with a module 2-4 packages deep that inherits __docformat__ from an outer package and is first reached through an import.")
ASSUMPTIONS = [
    "objects re-exported by two modules are excluded from the re-export-location comparison (statement); the generator gives each object one re-exporter",
    "projects with import cycles: only bases / resolved bases / linearisation of classes are compared",
]


def dump(s: Any, hierarchy_only: bool) -> Dict[str, Any]:
    from pydoctor import model

    def ident(o: Any) -> str:
        """identity of an object independent of where it ended up (cyclic projects may re-export or not)"""
        return o.docstring if (o.docstring or '').startswith('ID:') else o.fullName()
    d: Dict[str, Any] = {}
    for k, o in s.allobjects.items():
        if hierarchy_only:
            if isinstance(o, model.Class):
                d[ident(o)] = ([ident(b) if b is not None else None for b in o.baseobjects],
                               [x if isinstance(x, str) else ident(x) for x in o.mro(False)])
        else:
            h = None
            if isinstance(o, model.Class):
                h = (list(o.bases), [b.fullName() if b is not None else None for b in o.baseobjects],
                     [x if isinstance(x, str) else x.fullName() for x in o.mro(True)])
            d[k] = (type(o).__name__, str(o.kind), o.docstring, h)
    return d


def check_files(files: Dict[str, str], cyclic: bool, stale_possible: bool, star_on_cycle: bool, reexport_on_cycle: bool = False, fallback_star: bool = False) -> Tuple[List[Tuple[str, str]], Dict[str, Any]]:
    mods = files_to_mods(files)
    fullnames = [(m[1] + '.' if m[1] else '') + m[0] for m in mods]
    if len(set(fullnames)) != len(fullnames):
        # a module and a package of the same name: one of them is dropped when added, nothing to schedule
        return [], {'orders_total': 0, 'exhaustive': True, 'orders_run': 0}
    orders = orders_for(mods, MAX_ORDERS)
    info: Dict[str, Any] = {'orders_total': len(orders), 'exhaustive': len(orders) <= MAX_ORDERS}
    if len(orders) > MAX_ORDERS:
        step = len(orders) / float(SAMPLED_ORDERS)
        orders = [orders[int(i * step)] for i in range(SAMPLED_ORDERS)]
    info['orders_run'] = len(orders)
    ref = None
    ref_names: List[str] = []
    out: List[Tuple[str, str]] = []
    desc_files = '\n'.join('--- %s\n%s' % (k, v) for k, v in sorted(files.items()))
    for od in orders:
        names = [(mods[i][1] + '.' if mods[i][1] else '') + mods[i][0] for i in od]
        try:
            s = build_in_order(mods, od)
        except Exception as e:
            import traceback
            out.append(('analysis-raises', '%s\norder %s: %s\n%s' % (desc_files, names, e, traceback.format_exc()[-600:])))
            break
        d = dump(s, cyclic)
        if ref is None:
            ref, ref_names = d, names
            continue
        if d != ref:
            keys = sorted(k for k in set(d) | set(ref) if d.get(k) != ref.get(k))
            k0 = keys[0]
            sig = 'order-dependent'
            if fallback_star:
                sig = rexproj.FALLBACK_AFTER_STAR
            hk = [k for k in keys if _is_class_hierarchy_diff(ref.get(k), d.get(k), cyclic)]
            # members of a class whose base is resolved or not (e.g. an assignment to an inherited method name is a new
            # class variable only when the base is unknown) follow from the same hierarchy difference
            if fallback_star:
                pass
            elif stale_possible and hk and all(k in hk or any(str(k).startswith(str(h) + '.') for h in hk) for k in keys):
                sig = STALE
            elif reexport_on_cycle:
                sig = 'reexport-from-module-on-import-cycle'
            elif star_on_cycle:
                sig = 'star-import-on-import-cycle'
            out.append((sig, '%s\norder %s gives %s = %s\norder %s gives %s' % (desc_files, ref_names, k0, ref.get(k0), names, d.get(k0))))
            break
    return out, info


def _is_class_hierarchy_diff(a: Any, b: Any, cyclic: bool) -> bool:
    if a is None or b is None:
        return False
    if cyclic:
        return True
    if a[3] == b[3] or a[0] != b[0] or a[2] != b[2]:
        return False
    # (whether a class is an exception class follows from its resolved bases: it may differ together with them)
    return a[1] == b[1] or {a[1], b[1]} == {'DocumentableKind.CLASS', 'DocumentableKind.EXCEPTION'}


def project_case(proj: Dict[str, Any]) -> Tuple[Dict[str, str], bool, bool, bool, bool, bool]:
    files, meta = rexproj.to_files(proj)
    cyclic = bool(proj['extra'].get('cycle'))
    stale = any(rexproj.exporter_of(proj, c['obj']) and c['how'] in ('from-impl', 'both') for c in meta['checks'])
    # implementation modules that import a base class from its defining module are consumers of the same kind
    for im in proj['impl']:
        for d in im['defs']:
            for bm, bn in d['bases']:
                if bm != im['mod'] and rexproj.exporter_of(proj, bn):
                    stale = True
    if proj['extra'].get('second_root') and rexproj.exporter_of(proj, proj['impl'][0]['defs'][0]['name']):
        stale = True
    star_on_cycle = cyclic and (any(e['form'] == 'star' for e in proj['exports']) or bool(proj['extra'].get('star_consumer')))
    # the generated cycle runs through p._a (it imports p.api and p.c1) and through every implementation module that
    # imports a base class from a module on the cycle: a re-export of one of their names may happen while the defining
    # module is still being analysed, leaving an alias where another order moves the object
    on_cycle = {'_a'}
    grew = True
    while grew:
        grew = False
        for im in proj['impl']:
            if im['mod'] not in on_cycle and any(bm in on_cycle for d in im['defs'] for bm, _bn in d['bases']):
                on_cycle.add(im['mod'])
                grew = True
    reexport_on_cycle = cyclic and any(e['from'] in on_cycle for e in proj['exports'])
    return files, cyclic, stale, star_on_cycle, reexport_on_cycle, bool(rexproj.fallback_after_star(proj))


def real_cases() -> List[Dict[str, Any]]:
    base = os.path.join(REPO, 'pydoctor/test/testpackages')
    cases = []
    if os.path.isdir(base):
        for pkg in sorted(os.listdir(base)):
            d = os.path.join(base, pkg)
            if not os.path.isfile(os.path.join(d, '__init__.py')):
                continue
            files = {}
            for dp, dn, fn in os.walk(d):
                dn.sort()
                for f in sorted(fn):
                    if f.endswith('.py'):
                        try:
                            src = open(os.path.join(dp, f), encoding='utf-8').read()
                            compile(src, f, 'exec')
                            files[os.path.relpath(os.path.join(dp, f), base)] = src
                        except Exception:
                            pass
            if 2 <= len(files) <= 8 and pkg + '/__init__.py' in files:
                cases.append({'kind': 'real', 'name': pkg, 'files': files})
    return cases


def cycshadow_cases() -> List[Dict[str, Any]]:
    """An import cycle leaves the base of a class unresolved when its definition is visited; the class is then moved by a re-export into a
    module that binds the base's name to something else (a factory function, a constant, an imported module) or not at all: the hierarchy
    must come out the same in every order.  A small exhaustive family (shadow x form of the cycle x exported names x where and how the
    re-exporter is called, which moves it in the order)."""
    cases = []
    for shadow in ('func', 'var', 'none', 'import'):
        for cyc in ('from impl import child', 'import impl.child', 'from impl.child import Child'):
            for exp_base in (True, False):
                for apiname in ('api', 'zapi', 'aapi'):
                    for where in ('root', 'inpkg'):
                        sh = {'func': 'def Base():\n    QQQfactoryQQQ\n', 'var': 'Base = 1\n', 'none': '', 'import': 'from os import path as Base\n'}[shadow]
                        allv = '__all__ = ["Child"%s]\n' % (', "Base"' if exp_base and shadow != 'none' else '')
                        files = {'impl/__init__.py': '',
                                 'impl/base.py': cyc + '\nclass Base:\n    QQQID:1QQQ\n    def hello(self):\n        QQQID:1.helloQQQ\n',
                                 'impl/child.py': 'from impl.base import Base\nclass Child(Base):\n    QQQID:2QQQ\n    def hello(self):\n        pass\nclass Grand(Child):\n    QQQID:3QQQ\n',
                                 ('' if where == 'root' else 'impl/') + apiname + '.py': 'from impl.child import Child\n' + sh + allv}
                        cases.append({'kind': 'cycshadow', 'name': '%s/%s/%s/%s/%s' % (shadow, cyc, exp_base, apiname, where),
                                      'files': {k: v.replace('QQQ', '"' * 3) for k, v in files.items()}})
    return cases


def deepformat_cases() -> List[Dict[str, Any]]:
    """A module several packages deep whose docstrings are written in the format that an outer package declares (__docformat__), reached
    first through an import from elsewhere: every enclosing package has to be analysed before it, whatever comes first.  Exhaustive
    small family: depth x where the format is declared x who imports the module x how."""
    Q = '"' * 3
    leaf = ('class A:\n    ' + Q + 'ID:1\n\n    :ivar x: declared by a field\n    ' + Q + '\n    @property\n    def p(self):\n        ' + Q + '\n        :return: the p of A\n        ' + Q + '\n'
            'def f(a):\n    ' + Q + 'ID:2\n\n    :param a: the a\n    ' + Q + '\n')
    cases = []
    for depth in (1, 2, 3):
        chain = ['core'] + ['s%d' % i for i in range(depth)]
        for decl in range(depth + 1):
            for importer in ('root-before', 'root-after', 'sibling-before', 'sibling-after'):
                for form in ('from %s import A', 'import %s'):
                    files = {}
                    for i in range(len(chain)):
                        files['/'.join(chain[:i + 1]) + '/__init__.py'] = "__docformat__ = 'restructuredtext'\n" if i == decl else ''
                    files['/'.join(chain) + '/leaf.py'] = leaf
                    target = '.'.join(chain) + '.leaf'
                    stmt = form % target
                    if importer.startswith('root'):
                        files[('aaa' if importer == 'root-before' else 'zzz') + '.py'] = stmt + '\n'
                    else:
                        files['core/' + ('aaa' if importer == 'sibling-before' else 'zzz') + '.py'] = stmt + '\n'
                    cases.append({'kind': 'deepformat', 'name': '%d/%d/%s/%s' % (depth, decl, importer, form), 'files': files})
    return cases


def plan(tier: str, seed: int, scale: float = 1.0) -> List[Any]:
    n = ncpu()
    total = int((800 if tier == "quick" else 6000) * scale)
    items: List[Any] = [{'kind': 'gen', 'n': max(1, total // n), 'seed': seed * 1000 + i} for i in range(n)]
    items.append({'kind': 'real'})
    items.append({'kind': 'cycshadow'})
    items.append({'kind': 'deepformat'})
    return items


def work(item: Dict[str, Any]) -> Acc:
    acc = Acc()
    if item['kind'] == 'gen':
        def body(proj):
            files, cyclic, stale, soc, roc, fbs = project_case(proj)
            d, info = check_files(files, cyclic, stale, soc, roc, fbs)
            acc.case(key=proj, nontrivial=info['orders_run'] >= 2,
                     sample={'exports': proj['exports'], 'extra': proj['extra'], 'orders_run': info['orders_run'], 'orders_total': info['orders_total']},
                     classes=['orders-exhaustive' if info['exhaustive'] else 'orders-sampled', 'cyclic' if cyclic else 'acyclic'] +
                     (['star'] if any(e['form'] == 'star' for e in proj['exports']) else []) + (['reexport'] if proj['exports'] else []))
            acc.notes['systems_built'] = acc.notes.get('systems_built', 0) + info['orders_run']
            judge(ID, acc, dict(proj, kind='gen'), d)
        hyp_run(acc, rexproj.projects(cycles=True, star_consumers=True), body, item['n'], item['seed'])
    elif item['kind'] in ('cycshadow', 'deepformat'):
        for c in (cycshadow_cases() if item['kind'] == 'cycshadow' else deepformat_cases()):
            d, info = check_files(c['files'], c['kind'] == 'cycshadow', False, False)
            acc.case(key=c['name'], nontrivial=info['orders_run'] >= 2, sample={c['kind']: c['name'], 'orders_run': info['orders_run']}, classes=['cycle-shadowed-base', 'cyclic'] if c['kind'] == 'cycshadow' else ['deep-module-inherits-docformat', 'acyclic'])
            acc.notes['systems_built'] = acc.notes.get('systems_built', 0) + info['orders_run']
            try:
                judge(ID, acc, c, d)
            except Violation as v:
                acc.violations.append(v.as_dict())
                break
    else:
        from .. import findings
        for c in real_cases():
            cyc = 'cyclic' in c['name']
            d, info = check_files(c['files'], cyc, False, False)
            acc.case(key=c['name'], nontrivial=info['orders_run'] >= 2, sample={'real_package': c['name'], 'orders_run': info['orders_run']}, classes=['real-package'])
            try:
                judge(ID, acc, c, d)
            except Violation as v:
                acc.violations.append(v.as_dict())
    return acc


def replay(case: Dict[str, Any]) -> List[Tuple[str, str]]:
    if case.get('kind') == 'cycshadow':
        return check_files(case['files'], True, False, False)[0]
    if case.get('kind') == 'deepformat':
        return check_files(case['files'], False, False, False)[0]
    if case.get('kind') == 'real':
        return check_files(case['files'], 'cyclic' in case['name'], False, False)[0]
    files, cyclic, stale, soc, roc, fbs = project_case(case)
    return check_files(files, cyclic, stale, soc, roc, fbs)[0]
