"""C08 - any docstring in any format is rendered; markup errors degrade to plain text.

One string is attached to six kinds of object (module, class, function, method, attribute, property) in a small
system, under one of 5 docformats x {process-types on, off}.  For each object the parsed form, the HTML body, the
summary and the table of contents must be produced and flattened (termination under an alarm).  Independently the
harness runs the same parser construction itself to learn whether the parser *gave up* (raised / fatal epytext
error / to_stan raised); then: full original text shown verbatim, problem recorded against that object and printed
with its file.  Isolation: a neighbouring object with a benign docstring renders byte-identically whether or not
this docstring is garbage.
"""
from __future__ import annotations

import html
import re
import signal
from typing import Any, Dict, List, Optional, Tuple

from ..core import Acc, REPO, Violation, hyp_run, judge, ncpu, trunc
from ..sysutil import build, make_system

ID = "C08"
RULE = ("strings from the markup-fragment fuzzer (concatenated fragments of epytext/reST/google/numpy markup, field syntax, "
        "indentation, control characters, lone surrogates, non-BMP, long lines), mutated real docstrings of the repository "
        "and arbitrary Unicode, x 5 docformats x process-types on/off, attached to 6 object kinds. Non-trivial when the "
        "independently run parser reported >=1 error or produced >=1 field or markup node; distinct by hash of "
        "(string, docformat, process-types).")
ASSUMPTIONS = [
    "gave up = the parser raised, or (epytext) a fatal ParseError was recorded, or to_stan raised; docutils-recovered errors in the reST-based formats are not giving up",
    "a lone surrogate is shown as its backslash escape (it cannot be encoded in the page)",
    "termination: 60 s alarm per case, confirmed by replay in a fresh process",
]
DOCFORMATS = ['epytext', 'restructuredtext', 'google', 'numpy', 'plaintext']
BENIGN = 'Benign neighbour docstring with plain words.'
KINDS = ['m', 'm.C', 'm.C.meth', 'm.C.prop', 'm.C.attr', 'm.func']
_TAG = re.compile(r'<[^>]*>')
TIMEOUT = 60


class _Timeout(BaseException):
    pass


def module_source(doc: str) -> str:
    r = repr(doc)
    return ('%s\n'
            'class C:\n    %s\n'
            '    def meth(self, a, b):\n        %s\n'
            '    @property\n    def prop(self):\n        %s\n'
            '    attr = 1\n    %s\n'
            'def func(a, b=1, *args, **kw):\n    %s\n'
            'class Neighbour:\n    %s\n    def n(self, a):\n        %s\n'
            'class Sub(C):\n    def meth(self, a, b):\n        pass\n' % (r, r, r, r, r, r, repr(BENIGN), repr(BENIGN + ' L{Neighbour}')))


def _visible(text_html: str) -> str:
    return html.unescape(_TAG.sub('', text_html))


def _encodable(doc: str) -> str:
    try:
        doc.encode('utf-8')
        return doc
    except UnicodeEncodeError:
        return doc.encode('utf-8', 'backslashreplace').decode('utf-8')


def harness_parse(system: Any, obj: Any, fmt: str, processtypes: bool) -> Dict[str, Any]:
    """What happens when the documented parser construction is applied to obj.docstring, observed from outside."""
    from pydoctor.epydoc.markup import get_parser_by_name, processtypes as wrap
    from pydoctor.epydoc.markup import ParseError
    doc = _encodable(obj.docstring)
    parser = get_parser_by_name(fmt, obj)
    if processtypes and fmt not in ('google', 'numpy', 'plaintext'):
        parser = wrap(parser)
    errs: List[Any] = []
    res: Dict[str, Any] = {'gave_up': False, 'errors': 0, 'fields': 0, 'markup': False}
    try:
        parsed = parser(doc, errs)
    except Exception as e:
        res['gave_up'] = True
        res['why'] = 'parser raised %s' % type(e).__name__
        res['errors'] = len(errs) + 1
        if not isinstance(e, ParseError):
            # an internal failure: it is a problem of its own, beside the ones the parser had recorded before it failed
            res['internal'] = type(e).__name__
            res['before'] = len(errs)
        return res
    res['errors'] = len(errs)
    res['fields'] = len(parsed.fields)
    if fmt == 'epytext' and any(e.is_fatal() for e in errs):
        res['gave_up'] = True
        res['why'] = 'fatal epytext error: %s' % errs[0].descr()
        return res
    try:
        stan = parsed.to_stan(obj.docstring_linker)
        from pydoctor.stanutils import flatten
        flat = flatten(stan)
        res['markup'] = '<' in flat.replace('<p>', '').replace('</p>', '')
    except Exception as e:
        res['gave_up'] = True
        res['why'] = 'to_stan raised %s: %s' % (type(e).__name__, e)
        # a failure of the renderer is a problem of its own too, beside what the parser had recorded
        res['internal'] = 'to_stan: ' + type(e).__name__
        res['before'] = len(errs)
    return res


def check_case(case: Dict[str, Any]) -> Tuple[List[Tuple[str, str]], Dict[str, Any]]:
    import contextlib
    import io
    # docutils' math support prints diagnostics straight to stdout/stderr
    with contextlib.redirect_stdout(io.StringIO()), contextlib.redirect_stderr(io.StringIO()):
        return _check_case(case)


def _check_case(case: Dict[str, Any]) -> Tuple[List[Tuple[str, str]], Dict[str, Any]]:
    from pydoctor import epydoc2stan
    from pydoctor.stanutils import flatten
    doc, fmt, pt = case['doc'], case['fmt'], case['pt']
    args = ['--docformat=' + fmt] + (['--process-types'] if pt else [])
    out: List[Tuple[str, str]] = []
    info: Dict[str, Any] = {'gave_up': 0, 'errors': 0, 'fields': 0, 'markup': False}

    def on_alarm(signum: int, frame: Any) -> None:
        raise _Timeout()
    old = signal.signal(signal.SIGALRM, on_alarm)
    signal.alarm(TIMEOUT)
    try:
        src = module_source(doc)
        # (a module with nothing but the function: analysing a class already parses its docstring for its fields)
        # what one object looks like must not depend on what was parsed or rendered before it (state kept by a parser between
        # docstrings): the function is rendered once before anything else of this case and once more after everything else
        def snapshot() -> Optional[Tuple[str, List[str]]]:
            try:
                sX = build([('m', None, False, 'def func(a, b=1, *args, **kw):\n    %r\n' % (doc,))], args=args)
                fx = sX.allobjects['m.func']
                html = flatten(epydoc2stan.format_docstring(fx)) + flatten(epydoc2stan.format_summary(fx))
            except _Timeout:
                raise
            except Exception:
                return None  # reported by the main pass
            return html, [m for sec, m, th in sX.msgs if sec == 'docstring' and m.startswith('m:')]
        first = snapshot()
        try:
            sA = build([('m', None, False, src)], args=args)   # observed by the harness
            sB = build([('m', None, False, src)], args=args)   # pydoctor's own path
            sN = build([('m', None, False, module_source(BENIGN))], args=args)  # control for isolation
        except _Timeout:
            raise
        except Exception as e:
            import traceback
            return [('build-raises', 'building the module raised %s: %s\n%s' % (type(e).__name__, e, traceback.format_exc()[-900:]))], info
        bodies: Dict[str, str] = {}
        h_func: Dict[str, Any] = {}
        for name in KINDS:
            a, b = sA.allobjects[name], sB.allobjects[name]
            if not a.docstring:
                continue
            h = harness_parse(sA, a, fmt, pt)
            if name == 'm.func':
                h_func = h
            info['gave_up'] += int(h['gave_up'])
            info['errors'] += h['errors']
            info['fields'] += h['fields']
            info['markup'] = info['markup'] or h['markup']
            nmsgs = len(sB.msgs)
            rendered: Dict[str, str] = {}
            for what, fn in (('body', epydoc2stan.format_docstring), ('summary', epydoc2stan.format_summary), ('toc', epydoc2stan.format_toc)):
                try:
                    stan = fn(b)
                    rendered[what] = flatten(stan) if stan is not None else ''
                except _Timeout:
                    raise
                except Exception as e:
                    import traceback
                    out.append(('render-raises', '%s of %s (%s%s) raised %s: %s for docstring %r\n%s' % (
                        what, name, fmt, ' +process-types' if pt else '', type(e).__name__, e, trunc(doc, 300), traceback.format_exc()[-700:])))
            if 'body' not in rendered:
                continue
            bodies[name] = rendered['body']
            reported = name in sB.parse_errors['docstring']
            # messages printed for this object: "<module name>:<line>: bad docstring: ..."
            printed = [m for sec, m, th in sB.msgs if sec == 'docstring' and m.startswith('m:')]
            if h['gave_up']:
                shown = _visible(rendered['body'])
                want = _encodable(b.docstring)
                if want not in shown:
                    out.append(('fallback-loses-text', '%s (%s): parser gave up (%s) but the body does not show the complete docstring %r; body text %r' % (
                        name, fmt, h.get('why'), trunc(want, 300), trunc(shown, 300))))
                if not reported or not printed:
                    out.append(('giveup-not-reported', '%s (%s): parser gave up (%s) but parse_errors has it: %s, messages: %s' % (
                        name, fmt, h.get('why'), reported, printed[:2])))
            elif h['errors'] and fmt != 'plaintext':
                if not reported or not printed:
                    out.append(('errors-not-reported', '%s (%s): the parser recorded %d problems but parse_errors has it: %s, messages: %s; docstring %r' % (
                        name, fmt, h['errors'], reported, printed[:2], trunc(doc, 300))))
        # an internal failure of the parser is reported as such, in addition to what the parser had recorded before it failed
        # (judged on the module that holds nothing but the function: every message there is about this docstring)
        if h_func.get('internal') and first is not None and len(first[1]) < h_func['before'] + 1:
            out.append(('internal-failure-not-reported', 'm.func (%s): the parser recorded %d problem(s) and then parsing or rendering failed with %s, but only %d message(s) were printed: %s; docstring %r' % (
                fmt, h_func['before'], h_func['internal'], len(first[1]), first[1][:3], trunc(doc, 200))))
        # a real run extracts the summary of an object (for the table of its parent) before it renders the body, and the search index
        # reads the docstring after both: what is shown and reported must not depend on which of them came first
        try:
            sC = build([('m', None, False, src)], args=args)
            for name in KINDS:
                c = sC.allobjects[name]
                if name not in bodies:
                    continue
                flatten(epydoc2stan.format_summary(c))
                t_ = epydoc2stan.format_toc(c)
                if t_ is not None:
                    flatten(t_)
                later = flatten(epydoc2stan.format_docstring(c))
                if _visible(later) != _visible(bodies[name]):
                    out.append(('depends-on-render-order', '%s (%s) with docstring %r shows %r when the body is rendered first and %r when the summary is extracted first' % (
                        name, fmt, trunc(doc, 200), trunc(_visible(bodies[name]), 300), trunc(_visible(later), 300))))
                if (name in sC.parse_errors['docstring']) != (name in sB.parse_errors['docstring']):
                    out.append(('depends-on-render-order', '%s (%s) with docstring %r is listed among the objects with problems: %s when the body is rendered first, %s when the summary is extracted first' % (
                        name, fmt, trunc(doc, 200), name in sB.parse_errors['docstring'], name in sC.parse_errors['docstring'])))
        except _Timeout:
            raise
        except Exception as e:
            out.append(('render-raises', 'rendering summary, contents, body in that order (%s) raised %s: %s for docstring %r' % (fmt, type(e).__name__, e, trunc(doc, 300))))
        # the method that inherits the docstring shows what the method it is written on shows (also when the parser or the renderer
        # gave up on it), and the problem stays a problem of the docstring's own lines
        try:
            own_ = _visible(flatten(epydoc2stan.format_docstring(sB.allobjects['m.C.meth'])))
            inh_ = _visible(flatten(epydoc2stan.format_docstring(sB.allobjects['m.Sub.meth'])))
            if own_ != inh_ and sB.allobjects['m.C.meth'].docstring:
                out.append(('inherited-rendering-differs', 'm.Sub.meth inherits the docstring %r (%s) of m.C.meth but shows %r where m.C.meth shows %r' % (trunc(doc, 200), fmt, trunc(inh_, 300), trunc(own_, 300))))
        except _Timeout:
            raise
        except Exception as e:
            out.append(('render-raises', 'rendering the inherited docstring of m.Sub.meth (%s) raised %s: %s for docstring %r' % (fmt, type(e).__name__, e, trunc(doc, 300))))
        last = snapshot()
        if first is not None and last is not None and first != last:
            out.append(('depends-on-history', 'm.func (%s) with docstring %r is rendered or reported differently after the same text was processed for other objects:\n%s\n%s\nvs\n%s\n%s' % (
                fmt, trunc(doc, 300), trunc(first[0], 400), first[1][:3], trunc(last[0], 400), last[1][:3])))
        # isolation
        for nname in ('m.Neighbour', 'm.Neighbour.n'):
            try:
                g = flatten(epydoc2stan.format_docstring(sB.allobjects[nname])) + flatten(epydoc2stan.format_summary(sB.allobjects[nname]))
                n = flatten(epydoc2stan.format_docstring(sN.allobjects[nname])) + flatten(epydoc2stan.format_summary(sN.allobjects[nname]))
            except _Timeout:
                raise
            except Exception as e:
                out.append(('neighbour-affected', 'rendering the benign neighbour %s raised %s: %s' % (nname, type(e).__name__, e)))
                continue
            if g != n:
                out.append(('neighbour-affected', 'benign neighbour %s renders differently next to docstring %r:\n%s\nvs\n%s' % (nname, trunc(doc, 200), trunc(g, 300), trunc(n, 300))))
            if nname in sB.parse_errors['docstring']:
                out.append(('neighbour-affected', 'benign neighbour %s is listed in parse_errors' % nname))
    except _Timeout:
        out.append(('hang', 'rendering docstring %r (%s) did not finish within %d s' % (trunc(doc, 300), fmt, TIMEOUT)))
    finally:
        signal.alarm(0)
        signal.signal(signal.SIGALRM, old)
    seen = set()
    res = []
    for sig, msg in out:
        if sig not in seen:
            seen.add(sig)
            res.append((sig, msg))
    return res, info


# ---------------------------------------------------------------- type specifications (google / numpy)
# A type specification that is reported as malformed in one place is reported wherever it may be written: whether a problem is
# "reported against that object" must not depend on the section it sits in.
TYPESPECS = ['list[int', 'dict(str, int', '{1, 2', 'int]', 'list[int]', 'str or None', 'int, optional', "{'a', 'b'}", 'tuple(int, str)', 'a ]', '`x', 'list of (int', ':class:`C`', 'default 3']
TYPESPEC_PLACES = {
    'numpy': {
        'parameter': 'Summary.\n\nParameters\n----------\na : %s\n    desc\n',
        'attribute-like other parameter': 'Summary.\n\nOther Parameters\n----------------\na : %s\n    desc\n',
        'single return': 'Summary.\n\nReturns\n-------\n%s\n    desc\n',
        'several anonymous returns': 'Summary.\n\nReturns\n-------\n%s\n    desc\nint\n    other\n',
        'named then anonymous return': 'Summary.\n\nReturns\n-------\nx : int\n    first\n%s\n    desc\n',
        'several anonymous yields': 'Summary.\n\nYields\n------\n%s\n    desc\nint\n    other\n',
        'named return': 'Summary.\n\nReturns\n-------\nx : %s\n    desc\n',
    },
    'google': {
        'parameter': 'Summary.\n\nArgs:\n    a (%s): desc\n',
        'keyword': 'Summary.\n\nKeyword Args:\n    a (%s): desc\n',
        'return': 'Summary.\n\nReturns:\n    %s: desc\n',
        'yield': 'Summary.\n\nYields:\n    %s: desc\n',
    },
}


def check_typespec(fmt: str, spec: str) -> Tuple[List[Tuple[str, str]], Dict[str, bool]]:
    import contextlib
    import io
    from pydoctor import epydoc2stan
    from pydoctor.stanutils import flatten
    reported: Dict[str, bool] = {}
    with contextlib.redirect_stdout(io.StringIO()), contextlib.redirect_stderr(io.StringIO()):
        for place, tmpl in TYPESPEC_PLACES[fmt].items():
            if fmt == 'google' and ':' in spec and place in ('return', 'yield'):
                continue  # the first colon of a Google return entry ends the type
            s = build([('m', None, False, 'def func(a):\n    %r\n' % (tmpl % spec,))], args=['--docformat=' + fmt])
            try:
                flatten(epydoc2stan.format_docstring(s.allobjects['m.func']))
            except Exception as e:
                return [('render-raises', 'type specification %r as %s (%s): %s: %s' % (spec, place, fmt, type(e).__name__, e))], reported
            reported[place] = any('bad docstring' in m for sec, m, th in s.msgs)
    out: List[Tuple[str, str]] = []
    if len(set(reported.values())) > 1:
        out.append(('typespec-report-depends-on-place', '%s type specification %r: reported as a problem of the object in %s, silently accepted in %s' % (
            fmt, spec, sorted(p_ for p_, r in reported.items() if r), sorted(p_ for p_, r in reported.items() if not r))))
    return out, reported


def plan(tier: str, seed: int, scale: float = 1.0) -> List[Any]:
    n = ncpu()
    total = int((2400 if tier == 'quick' else 40000) * scale)
    shards = n if tier == 'quick' else 4 * n
    items: List[Any] = [{'n': max(1, total // shards), 'seed': seed * 1000 + i} for i in range(shards)]
    items += [{'kind': 'typespec', 'fmt': 'numpy'}, {'kind': 'typespec', 'fmt': 'google'}]
    if tier == 'thorough':
        for i in range(n):
            items.append({'kind': 'atheris', 'seconds': int(300 * scale), 'seed': seed * 1000 + 300 + i})
    return items


def work(item: Dict[str, Any]) -> Acc:
    if item.get('kind') == 'atheris':
        from ..core import run_fuzz_item
        return run_fuzz_item(ID, 'c08', item['seconds'], item['seed'])
    if item.get('kind') == 'typespec':
        acc = Acc()
        for spec in TYPESPECS:
            d, rep = check_typespec(item['fmt'], spec)
            acc.case(nontrivial=True, distinct_by_construction=True, classes=['typespec-' + item['fmt']],
                     sample=({'typespec': spec, 'format': item['fmt'], 'reported_in': rep} if spec in ('list[int', 'str or None') else None))
            try:
                judge(ID, acc, {'kind': 'typespec', 'fmt': item['fmt'], 'spec': spec}, d)
            except Violation as v:
                acc.violations.append(v.as_dict())
        acc.exhaustive_parts.append('type specifications x every place they may be written (google, numpy)')
        return acc
    from hypothesis import strategies as st
    from ..gen import docs
    acc = Acc()
    strat = st.fixed_dictionaries({'doc': docs.fragments(REPO), 'fmt': st.sampled_from(DOCFORMATS), 'pt': st.booleans()})

    def body(c):
        d, info = check_case(c)
        classes = ['fmt-' + c['fmt'], 'pt-on' if c['pt'] else 'pt-off']
        classes.append('gave-up' if info['gave_up'] else ('errors' if info['errors'] else 'clean'))
        acc.case(key=c, nontrivial=bool(info['errors'] or info['fields'] or info['markup']), sample=c, classes=classes)
        judge(ID, acc, c, d)
    hyp_run(acc, strat, body, item['n'], item['seed'])
    return acc


def replay(case: Dict[str, Any]) -> List[Tuple[str, str]]:
    if case.get('kind') == 'typespec':
        return check_typespec(case['fmt'], case['spec'])[0]
    return check_case(case)[0]
