"""C17 - written inventories read back faithfully; malformed remote ones are survivable.

roundtrip  generated projects x privacy rules: the objects.inv written by a real run is loaded (a) by
           SphinxInventory.update through a cache stub and (b) by sphinx.util.inventory.InventoryFile; both must
           yield exactly the visible objects of the model, each once, at base + '/' + obj.url.
robust     byte strings from a structured mutator of valid inventories (columns dropped/duplicated/permuted, every
           column count, priority first/last/missing/non-numeric, names with spaces, non-py domains, '$' suffix,
           odd separators, bad UTF-8, truncated / doubly / wrongly compressed payloads) and arbitrary bytes:
           update() must return, report unusable parts through the logger, and every untouched valid line of the
           same file must still resolve.
"""
from __future__ import annotations

import io
import os
import zlib
from typing import Any, Dict, List, Optional, Tuple

from ..core import Acc, Violation, hyp_run, judge, ncpu, trunc
from ..run import pydoctor_run

ID = "C17"
RULE = ("roundtrip: grammar-generated project trees and link-rich projects x docformat x privacy rules rendered by driver.main (entry location judged from the written pages); non-trivial when the "
        "project has >=1 hidden or private object and >=5 visible ones; distinct by hash of (files, args). robust: mutated "
        "inventories; non-trivial when the payload has >=1 damaged and >=1 intact line, or the container itself is damaged; "
        "distinct by hash of the bytes.")
ASSUMPTIONS = [
    "an intact line is `name py:type <int> location display` with a name without spaces; lines the mutator did not touch must resolve",
    "Sphinx's own reader (sphinx.util.inventory.InventoryFile.loads) is the second, independent reader",
]
ALL_EXHAUSTIVE = False
BASE = 'http://example.org/api'
URL = BASE + '/objects.inv'
BASE2 = 'http://other.example/docs'
URL2 = BASE2 + '/objects.inv'


class Cache:
    def __init__(self, data: Optional[bytes]) -> None:
        self.data = data

    def get(self, url: str) -> Optional[bytes]:
        return self.data

    def close(self) -> None:
        pass


def load_own(data: bytes) -> Tuple[Any, List[Tuple[str, str]], Optional[str]]:
    from pydoctor import sphinx
    msgs: List[Tuple[str, str]] = []

    def logger(where: str, message: str, thresh: int = 0, **kw: Any) -> None:
        msgs.append((where, message))
    inv = sphinx.SphinxInventory(logger=logger)
    err = None
    try:
        inv.update(Cache(data), URL)
    except BaseException as e:
        import traceback
        err = '%s: %s\n%s' % (type(e).__name__, e, traceback.format_exc()[-800:])
    return inv, msgs, err


# ------------------------------------------------------------------ round trip

def check_roundtrip(case: Dict[str, Any]) -> Tuple[List[Tuple[str, str]], Dict[str, Any]]:
    from .c01 import _dec
    files = {k: _dec(v) for k, v in case['files'].items()}
    info = {'visible': 0, 'invisible': 0}
    out: List[Tuple[str, str]] = []
    with pydoctor_run(files, case['roots'], case['args'], timeout=120) as r:
        if r.exc is not None or r.code not in (0, 2, 3) or r.timeout:
            info['crashed'] = True
            return [], info
        s = r.system
        with open(os.path.join(r.out, 'objects.inv'), 'rb') as fh:
            data = fh.read()
        want: Dict[str, str] = {}
        for name, o in s.allobjects.items():
            if o.isVisible and _reachable(o):
                want[name] = BASE + '/' + o.url
                info['visible'] += 1
            else:
                info['invisible'] += 1
        if any(' ' in n for n in want):
            info['has_dup_names'] = True
        # (a) pydoctor's own reader
        inv, msgs, err = load_own(data)
        if err:
            return [('own-reader-raises', 'SphinxInventory.update raised on pydoctor\'s own objects.inv: %s' % err)], info
        got = {n: inv.getLink(n) for n in inv._links}
        out.extend(_cmp('own reader', want, got))
        if msgs:
            out.append(('own-reader-complains', 'reading pydoctor\'s own inventory logs %s' % msgs[:3]))
        # where the entry points is where the object is documented, judged from the pages that were written (not from
        # Documentable.url): a page whose <title> is the object's qualified name, or an anchor named by the qualified name
        out.extend(_check_locations(r.out, got))
        # raw payload: each name exactly once
        payload = zlib.decompress(data.split(b'zlib.\n', 1)[1]).decode('utf-8')
        names = [l.split(' py:')[0] for l in payload.splitlines()]
        dups = sorted({n for n in names if names.count(n) > 1})
        if dups:
            out.append(('duplicate-entry', 'names listed more than once in objects.inv: %s' % dups[:5]))
        # (b) Sphinx
        try:
            from sphinx.util.inventory import InventoryFile
            sinv = InventoryFile.loads(data, uri=BASE)
            sgot: Dict[str, str] = {}
            styp: Dict[str, str] = {}
            for typ, entries in sinv.data.items():
                for n, item in entries.items():
                    if n in sgot:
                        out.append(('duplicate-entry', 'Sphinx sees %s under two types' % n))
                    sgot[n] = item.uri
                    styp[n] = typ
            out.extend(_cmp('Sphinx', want, sgot))
            # read by Sphinx, an entry sits under the role of what it is (a :py:meth: reference only looks among methods):
            # modules under py:module, classes under py:class/py:exception, functions of a class under one of the method roles,
            # other functions under py:function
            from pydoctor import model as _model
            for n, typ in sorted(styp.items()):
                o = s.allobjects.get(n)
                if o is None:
                    continue
                if isinstance(o, _model.Module):
                    ok = typ == 'py:module'
                elif isinstance(o, _model.Class):
                    ok = typ in ('py:class', 'py:exception')
                elif isinstance(o, _model.Function):
                    in_class = isinstance(o.parent, _model.Class)
                    ok = typ in (('py:method', 'py:classmethod', 'py:staticmethod') if in_class else ('py:function',))
                else:
                    ok = typ in ('py:attribute', 'py:data', 'py:property')
                if not ok:
                    out.append(('entry-role', 'Sphinx finds %s (%s%s) under the role %s' % (n, type(o).__name__, ' in a class' if isinstance(o.parent, _model.Class) else '', typ)))
                    break
        except Exception as e:
            out.append(('sphinx-cannot-load', 'sphinx.util.inventory cannot load the inventory: %s: %s' % (type(e).__name__, e)))
    seen = set()
    res = []
    for sig, msg in out:
        if sig not in seen:
            seen.add(sig)
            res.append((sig, msg))
    return res, info


def _check_locations(outdir: str, got: Dict[str, Optional[str]]) -> List[Tuple[str, str]]:
    from ..oracle import crawl
    pages = crawl.read_dir(outdir)
    out: List[Tuple[str, str]] = []
    page_of: Dict[str, str] = {}
    for name, uri in sorted(got.items()):
        if not uri or not uri.startswith(BASE + '/'):
            continue
        rel = uri[len(BASE) + 1:]
        page, _, frag = rel.partition('#')
        from urllib.parse import unquote
        pg = pages.get(unquote(page))
        if pg is None or pg.dom is None:
            out.append(('entry-points-nowhere', 'inventory entry %s -> %s: no such page was written' % (name, rel)))
            continue
        if frag:
            if unquote(frag) not in pg.anchors or name not in pg.anchors:
                out.append(('entry-anchor-missing', 'inventory entry %s -> %s: the page has %s' % (
                    name, rel, 'no anchor %r' % frag if unquote(frag) not in pg.anchors else 'the anchor, but not for this object (no anchor %r)' % name)))
        else:
            titles = [crawl._text(t).strip() for t in pg.dom.getElementsByTagName('title')]
            if titles[:1] != [name]:
                out.append(('entry-wrong-page', 'inventory entry %s -> %s: that page documents %s' % (name, rel, titles[:1])))
            if page in page_of:
                out.append(('entry-wrong-page', 'inventory entries %s and %s are both mapped to the page %s' % (page_of[page], name, page)))
            page_of[page] = name
    return out


def _reachable(o: Any) -> bool:
    """Objects superseded by a later definition of the same name (`X 0`) are not in their parent's contents."""
    while o.parent is not None:
        if o.parent.contents.get(o.name) is not o:
            return False
        o = o.parent
    return True


def _cmp(who: str, want: Dict[str, str], got: Dict[str, Optional[str]]) -> List[Tuple[str, str]]:
    out = []
    missing = sorted(set(want) - set(got))
    extra = sorted(set(got) - set(want))
    if missing:
        out.append(('entry-missing', '%s: visible objects without inventory entry: %s' % (who, missing[:5])))
    if extra:
        out.append(('entry-extra', '%s: inventory entries that are not visible documented objects: %s' % (who, extra[:5])))
    for n in sorted(set(want) & set(got)):
        if got[n] != want[n]:
            out.append(('wrong-location', '%s: %s maps to %r, documented at %r' % (who, n, got[n], want[n])))
            break
    return out


# ------------------------------------------------------------------ robustness

HEADER = b'# Sphinx inventory version 2\n# Project: p\n# Version: 1\n# The rest of this file is compressed with zlib.\n'


def st_inventory():
    from hypothesis import strategies as st
    name = st.text(alphabet='abcXYZ_.09', min_size=1, max_size=12)
    typ = st.sampled_from(['py:class', 'py:function', 'py:module', 'py:method', 'py:attribute', 'py:data', 'py:exception'])
    loc = st.sampled_from(['a.html', 'a.b.html#c', 'x/y.html#$', 'index.html', 'p.html#m-$', '$'])
    disp = st.sampled_from(['-', 'Display Name', 'a b c', '-1', '3'])
    good = st.tuples(name, typ, st.sampled_from(['1', '-1', '0', '2']), loc, disp)

    def damage(draw, cols: List[str]) -> Tuple[str, str]:
        op = draw(st.sampled_from(['drop', 'dup', 'swap', 'prio-last', 'prio-first', 'prio-text', 'no-prio', 'cut', 'spaces-in-name', 'nonpy', 'empty',
                                   'only-spaces', 'tabs', 'prio-float', 'many-cols', 'no-display', 'int-name', 'int-type']))
        c = list(cols)
        if op == 'drop':
            del c[draw(st.integers(0, len(c) - 1))]
        elif op == 'dup':
            i = draw(st.integers(0, len(c) - 1)); c.insert(i, c[i])
        elif op == 'swap':
            i = draw(st.integers(0, len(c) - 1)); j = draw(st.integers(0, len(c) - 1)); c[i], c[j] = c[j], c[i]
        elif op == 'prio-last':
            pr = c.pop(2); c.append(pr); c = c[:draw(st.integers(2, len(c)))] + ([pr] if draw(st.booleans()) else [])
            if not c or c[-1] != pr:
                c.append(pr)
        elif op == 'prio-first':
            pr = c.pop(2); c.insert(0, pr)
        elif op == 'prio-text':
            c[2] = draw(st.sampled_from(['x', '', '1.5', '-', '--1', '1e3', '١']))
        elif op == 'no-prio':
            del c[2]
            c = [x for x in c if not x.lstrip('-').isdigit()]
        elif op == 'cut':
            c = c[:draw(st.integers(0, len(c) - 1))]
        elif op == 'spaces-in-name':
            c[0] = c[0] + ' with space'
        elif op == 'nonpy':
            c[1] = draw(st.sampled_from(['std:label', 'c:function', 'js:class', 'py', ':', 'std:term']))
        elif op == 'empty':
            c = []
        elif op == 'only-spaces':
            return op, ' ' * draw(st.integers(1, 6))
        elif op == 'tabs':
            return op, '\t'.join(c)
        elif op == 'prio-float':
            c[2] = '1.0'
        elif op == 'many-cols':
            c = c + ['x'] * draw(st.integers(1, 4))
        elif op == 'no-display':
            c = c[:4]
        elif op == 'int-name':
            c[0] = draw(st.sampled_from(['1', '-1', '42']))
        elif op == 'int-type':
            c[1] = '7'
        return op, ' '.join(c)

    @st.composite
    def inv(draw):
        n = draw(st.integers(1, 8))
        lines: List[Tuple[str, Optional[Tuple[str, str, str, str, str]]]] = []
        used = set()
        ops = []
        for _ in range(n):
            g = draw(good)
            if g[0] in used:
                continue
            used.add(g[0])
            if draw(st.integers(0, 2)) == 0:
                op, text = damage(draw, list(g))
                ops.append(op)
                lines.append((text, None))
            else:
                lines.append((' '.join(g), g))
        sep = draw(st.sampled_from(['\n', '\n', '\n', '\r\n']))
        payload = sep.join(t for t, _g in lines) + (sep if draw(st.booleans()) else '')
        pbytes = payload.encode('utf-8')
        container = draw(st.sampled_from(['ok', 'ok', 'ok', 'ok', 'truncated', 'double', 'raw', 'bad-utf8', 'no-header', 'extra-header', 'gzip', 'empty', 'garbage-tail', 'header-only']))
        intact_container = True
        if container == 'ok':
            data = HEADER + zlib.compress(pbytes)
        elif container == 'truncated':
            z = zlib.compress(pbytes); data = HEADER + z[:draw(st.integers(0, max(0, len(z) - 1)))]; intact_container = False
        elif container == 'double':
            data = HEADER + zlib.compress(zlib.compress(pbytes)); intact_container = False
        elif container == 'raw':
            data = HEADER + pbytes; intact_container = False
        elif container == 'bad-utf8':
            data = HEADER + zlib.compress(pbytes + b'\nbad\xff\xfe py:class 1 x.html -\n'); intact_container = False
        elif container == 'no-header':
            data = zlib.compress(pbytes)
        elif container == 'extra-header':
            data = HEADER + b'# another comment line\n' + zlib.compress(pbytes)
        elif container == 'gzip':
            import gzip
            data = HEADER + gzip.compress(pbytes); intact_container = False
        elif container == 'empty':
            data = b''; intact_container = False
        elif container == 'garbage-tail':
            data = HEADER + zlib.compress(pbytes) + b'trailing garbage'  # zlib ignores it: every line is usable
        else:
            data = HEADER; intact_container = False
        return {'kind': 'robust', 'hex': data.hex(), 'intact': [list(g) for _t, g in lines if g is not None] if intact_container else [],
                'container': container, 'ops': ops, 'damaged': sum(1 for _t, g in lines if g is None)}
    return inv()


def check_robust(case: Dict[str, Any]) -> List[Tuple[str, str]]:
    data = bytes.fromhex(case['hex'])
    inv, msgs, err = load_own(data)
    if err:
        return [('reader-raises', 'SphinxInventory.update raised on %d bytes (container %s, damage %s): %s' % (
            len(data), case.get('container'), case.get('ops'), err))]
    out: List[Tuple[str, str]] = []
    if case.get('container') not in ('ok', 'no-header', 'extra-header', 'garbage-tail', None) and not msgs:
        out.append(('damage-not-reported', 'container damage %r was not reported through the logger' % case.get('container')))
    for name, typ, prio, loc, disp in case.get('intact', []):
        link = inv.getLink(name)
        rel = loc[:-1] + name if loc.endswith('$') else loc
        want = BASE + '/' + rel
        if link != want:
            out.append(('intact-line-lost', 'intact line %r resolves to %r instead of %r (container %s, damage %s)' % (
                ' '.join([name, typ, prio, loc, disp]), link, want, case.get('container'), case.get('ops'))))
            break
    # a run loads several inventories with one reader: whatever this one was, a sound one loaded *after* it still resolves, and
    # what resolved from this one keeps resolving
    good = HEADER + zlib.compress(b'after.ok py:class 1 after/ok.html -\nafter.fn py:function 1 after/mod.html#$ -\n')
    before = {name: inv.getLink(name) for name, *_r in case.get('intact', [])}
    try:
        inv.update(Cache(good), URL2)
    except BaseException as e:
        return out + [('reader-raises', 'loading a sound inventory after this one raised %s: %s (container %s, damage %s)' % (type(e).__name__, e, case.get('container'), case.get('ops')))]
    if inv.getLink('after.ok') != BASE2 + '/after/ok.html' or inv.getLink('after.fn') != BASE2 + '/after/mod.html#after.fn':
        out.append(('later-inventory-lost', 'a sound inventory loaded after this one does not resolve: after.ok -> %r, after.fn -> %r (container %s, damage %s)' % (
            inv.getLink('after.ok'), inv.getLink('after.fn'), case.get('container'), case.get('ops'))))
    for name, link in before.items():
        if inv.getLink(name) != link:
            out.append(('intact-line-lost', '%r resolved to %r, and to %r after another inventory was loaded' % (name, link, inv.getLink(name))))
            break
    return out


# ------------------------------------------------------------------ plan / work / replay

def plan(tier: str, seed: int, scale: float = 1.0) -> List[Any]:
    n = ncpu()
    items: List[Any] = []
    rt = int((240 if tier == 'quick' else 4000) * scale)
    for i in range(n):
        items.append({'kind': 'roundtrip', 'n': max(1, rt // n), 'seed': seed * 1000 + i})
    rb = int((20000 if tier == 'quick' else 1000000) * scale)
    for i in range(n):
        items.append({'kind': 'robust', 'n': max(1, rb // n), 'seed': seed * 1000 + 100 + i})
    for i in range(n):
        items.append({'kind': 'bytes', 'n': max(1, rb // (4 * n)), 'seed': seed * 1000 + 200 + i})
    if tier == 'thorough':
        for i in range(max(2, n // 2)):
            items.append({'kind': 'atheris', 'seconds': int(240 * scale), 'seed': seed * 1000 + 300 + i})
    return items


def work(item: Dict[str, Any]) -> Acc:
    if item['kind'] == 'atheris':
        from ..core import run_fuzz_item
        return run_fuzz_item(ID, 'c17', item['seconds'], item['seed'])
    acc = Acc()
    if item['kind'] == 'roundtrip':
        from .c01 import st_tree

        def body(c):
            d, info = check_roundtrip(c)
            if info.get('crashed'):
                acc.inconclusive += 1
                return
            acc.case(key=(c['files'], c['args']), nontrivial=info['invisible'] >= 1 and info['visible'] >= 5,
                     sample={'files': {k: trunc(v, 120) for k, v in c['files'].items()}, 'args': c['args'], 'info': info},
                     classes=['roundtrip', 'with-invisible' if info['invisible'] else 'all-visible'] + (['with-superseded-duplicate'] if info.get('has_dup_names') else []))
            judge(ID, acc, dict(c, kind='roundtrip'), d)
        from hypothesis import strategies as st
        from ..gen import linkproj
        # grammar-generated trees and the link-rich projects (re-exports, superseded duplicates, hidden/private rules, objects named
        # like the root, a __main__ module, names that differ only by case)
        hyp_run(acc, st.one_of(st_tree(clean=True), linkproj.projects().map(lambda p: {'files': p['files'], 'roots': p['roots'], 'args': p['args']})),
                body, item['n'], item['seed'], shrink=True)
    elif item['kind'] == 'robust':
        def body2(c):
            acc.case(key=c['hex'], nontrivial=(c['damaged'] >= 1 and len(c['intact']) >= 1) or c['container'] not in ('ok',),
                     sample={'container': c['container'], 'damage': c['ops'], 'intact_lines': len(c['intact'])},
                     classes=['container-' + c['container']] + ['damage-' + o for o in c['ops']])
            judge(ID, acc, c, check_robust(c))
        hyp_run(acc, st_inventory(), body2, item['n'], item['seed'])
    else:
        from hypothesis import strategies as st
        strat = st.one_of(st.binary(max_size=200), st.binary(max_size=120).map(lambda b: HEADER + zlib.compress(b)),
                          st.text(max_size=80).map(lambda t: HEADER + zlib.compress(t.encode('utf-8', 'surrogatepass'))))

        def body3(b):
            c = {'kind': 'robust', 'hex': b.hex(), 'intact': [], 'container': None, 'ops': ['arbitrary-bytes'], 'damaged': 1}
            acc.case(key=c['hex'], nontrivial=len(b) > 0, sample={'bytes': b[:40].hex()}, classes=['arbitrary-bytes'])
            judge(ID, acc, c, check_robust(c))
        hyp_run(acc, strat, body3, item['n'], item['seed'])
    return acc


def replay(case: Dict[str, Any]) -> List[Tuple[str, str]]:
    if case.get('kind') == 'roundtrip':
        return check_roundtrip(case)[0]
    return check_robust(case)
