"""C18 - equal inputs give byte-identical output.

Each run is a separate `python -m pydoctor` child (fresh global counters).  Per project a schedule set is generated:
PYTHONHASHSEED values, the order in which the file system lists directory entries (a sitecustomize injected into the
child wraps os.listdir/os.scandir and shuffles their results from a seed), fresh output directory vs. the directory
that already holds the previous run's result; SOURCE_DATE_EPOCH (or --buildtime) fixed.  All output trees must be
byte-identical: same set of file names, same bytes, same symlink targets.
"""
from __future__ import annotations

import filecmp
import os
import shutil
import tempfile
from typing import Any, Dict, List, Optional, Tuple

from ..core import Acc, HOME, REPO, Violation, hyp_run, judge, ncpu, trunc
from ..run import pydoctor_child, scratch_root, write_tree

ID = "C18"
RULE = ("link-rich generated projects and grammar-generated trees (1-3 roots, with and without --project-name) x a schedule set of "
        "4 runs: generated PYTHONHASHSEED values, shuffled directory listings, fresh vs reused output directory (the reusing run under another TZ), SOURCE_DATE_EPOCH or "
        "--buildtime. Non-trivial when the project has >=2 modules and >=8 objects (so that iteration order can matter); distinct by "
        "hash of (files, args, schedule).")
ASSUMPTIONS = [
    "hash seeds and listing orders are sampled (4 runs per project): a dependence that shows for one seed in thousands can be missed",
    "the command-line order of the roots is part of the input and kept fixed",
]

SITECUSTOMIZE = r'''
import os, random
_seed = os.environ.get("PV_LISTDIR_SHUFFLE")
if _seed:
    _rnd = random.Random(int(_seed))
    _listdir, _scandir = os.listdir, os.scandir
    def listdir(path="."):
        r = _listdir(path)
        _rnd.shuffle(r)
        return r
    class _Scan:
        def __init__(self, path):
            it = _scandir(path)
            self._entries = list(it)
            it.close()
            _rnd.shuffle(self._entries)
        def __iter__(self): return iter(self._entries)
        def __enter__(self): return self
        def __exit__(self, *a): return False
        def close(self): pass
    def scandir(path="."):
        return _Scan(path)
    os.listdir, os.scandir = listdir, scandir
'''


def tree_digest(d: str) -> Dict[str, Any]:
    out: Dict[str, Any] = {}
    for dp, dn, fn in os.walk(d):
        dn.sort()
        for f in sorted(fn):
            p = os.path.join(dp, f)
            rel = os.path.relpath(p, d)
            if os.path.islink(p):
                out[rel] = ('link', os.readlink(p))
            else:
                with open(p, 'rb') as fh:
                    out[rel] = ('file', fh.read())
    return out


def first_diff(a: bytes, b: bytes) -> str:
    i = 0
    n = min(len(a), len(b))
    while i < n and a[i] == b[i]:
        i += 1
    return 'at byte %d: %r vs %r' % (i, a[max(0, i - 60):i + 60], b[max(0, i - 60):i + 60])


def check_case(case: Dict[str, Any]) -> Tuple[List[Tuple[str, str]], Dict[str, Any]]:
    from .c01 import _dec
    files = {k: _dec(v) for k, v in case['files'].items()}
    base = tempfile.mkdtemp(prefix='pv_c18_', dir=scratch_root())
    info: Dict[str, Any] = {'files': 0}
    out: List[Tuple[str, str]] = []
    try:
        src = os.path.join(base, 'src')
        site = os.path.join(base, 'site')
        os.makedirs(src)
        os.makedirs(site)
        write_tree(src, files)
        with open(os.path.join(site, 'sitecustomize.py'), 'w') as fh:
            fh.write(SITECUSTOMIZE)
        ref: Optional[Dict[str, Any]] = None
        ref_desc = ''
        prev_out: Optional[str] = None
        for i, sched in enumerate(case['schedule']):
            outdir = os.path.join(base, 'out%d' % i)
            if sched.get('reuse') and prev_out is not None:
                shutil.copytree(prev_out, outdir, symlinks=True)
            env: Dict[str, Any] = {'PYTHONHASHSEED': str(sched['hashseed']), 'PYTHONPATH': REPO + os.pathsep + site, 'PYTHONDONTWRITEBYTECODE': '1'}
            args = list(case['args'])
            if case.get('buildtime'):
                args.append('--buildtime=2020-02-02 02:02:02')
                env['SOURCE_DATE_EPOCH'] = None   # removed from the child's environment
            else:
                env['SOURCE_DATE_EPOCH'] = case.get('epoch') or '1580608922'
            # the build time is an instant (SOURCE_DATE_EPOCH) or is given as text (--buildtime): the local time zone of the machine
            # that builds is not an input
            if sched.get('tz'):
                env['TZ'] = sched['tz']
            env['PV_LISTDIR_SHUFFLE'] = str(sched['shuffle']) if sched.get('shuffle') else ''
            e2 = dict(env)
            code, so, se = pydoctor_child(src, case['roots'], outdir, args, env=e2, timeout=300, cwd=base)
            if code not in (0, 2, 3):
                info['crashed'] = 'exit %s: %s' % (code, se[-300:])
                return [], info
            dg = tree_digest(outdir)
            info['files'] = len(dg)
            desc = 'run %d %s' % (i, sched)
            if ref is None:
                ref, ref_desc = dg, desc
            else:
                if set(dg) != set(ref):
                    out.append(('file-set-differs', '%s vs %s: files only in one tree: %s' % (ref_desc, desc, sorted(set(dg) ^ set(ref))[:6])))
                for name in sorted(set(dg) & set(ref)):
                    if dg[name] != ref[name]:
                        kind = ('reused-output-dir-or-time-zone' if sched.get('tz') else 'reused-output-dir') if sched.get('reuse') else ('listing-order' if sched.get('shuffle') and sched['hashseed'] == case['schedule'][0]['hashseed'] else 'hash-seed-or-listing-order')
                        what = first_diff(ref[name][1], dg[name][1]) if ref[name][0] == 'file' and dg[name][0] == 'file' else '%r vs %r' % (ref[name][:1], dg[name][:1])
                        out.append(('output-differs:' + _where(name), '%s vs %s (%s): %s differs %s' % (ref_desc, desc, kind, name, what)))
                        break
            prev_out = outdir
    finally:
        shutil.rmtree(base, ignore_errors=True)
    seen = set()
    res = []
    for sig, msg in out:
        if sig not in seen:
            seen.add(sig)
            res.append((sig, msg))
    return res, info


def _where(name: str) -> str:
    if name.endswith('.json'):
        return 'search-index'
    if name == 'objects.inv':
        return 'inventory'
    if name in ('index.html', 'moduleIndex.html', 'classIndex.html', 'nameIndex.html', 'undoccedSummary.html', 'all-documents.html'):
        return 'summary-page'
    if name.endswith('.html'):
        return 'object-page'
    return 'static-file'


def st_case():
    from hypothesis import strategies as st
    from ..gen import linkproj
    from .c01 import st_tree

    @st.composite
    def c(draw):
        p = draw(st.one_of(linkproj.projects(), st_tree(clean=True)))
        args = [a for a in p['args'] if a != '-W']
        if draw(st.booleans()):
            args = [a for a in args if not a.startswith('--project-name')]
        h0 = draw(st.integers(0, 4000))
        sched = [{'hashseed': h0},
                 {'hashseed': draw(st.integers(0, 4000)), 'shuffle': draw(st.integers(1, 10 ** 6))},
                 {'hashseed': draw(st.integers(0, 4000)), 'reuse': True, 'tz': draw(st.sampled_from(['JST-9', 'PST8', 'UTC', 'NPT-5:45']))},
                 {'hashseed': h0, 'shuffle': draw(st.integers(1, 10 ** 6))}]
        return {'files': p['files'], 'roots': p['roots'], 'args': args, 'schedule': sched, 'buildtime': draw(st.integers(0, 3)) == 0,
                # the instant is any valid value of the variable, the epoch itself included
                'epoch': draw(st.sampled_from(['1580608922', '1580608922', '0', '00', '1', '2147483648']))}
    return c()


def plan(tier: str, seed: int, scale: float = 1.0) -> List[Any]:
    n = ncpu()
    total = int((160 if tier == 'quick' else 2000) * scale)
    return [{'n': max(1, total // n), 'seed': seed * 1000 + i} for i in range(n)]


def work(item: Dict[str, Any]) -> Acc:
    acc = Acc()

    def body(c):
        d, info = check_case(c)
        if info.get('crashed'):
            acc.inconclusive += 1
            acc.notes.setdefault('crash_example', info['crashed'][:300])
            return
        nmods = sum(1 for f in c['files'] if f.endswith('.py'))
        acc.case(key=c, nontrivial=nmods >= 2 and info['files'] >= 20,
                 sample={'roots': c['roots'], 'args': c['args'], 'schedule': c['schedule'], 'output_files': info['files']},
                 classes=['roots-%d' % len(c['roots']), 'explicit-project-name' if any(a.startswith('--project-name') for a in c['args']) else 'guessed-project-name',
                          'buildtime-option' if c.get('buildtime') else 'source-date-epoch'])
        judge(ID, acc, c, d)
    hyp_run(acc, st_case(), body, item['n'], item['seed'], shrink=False)
    return acc


def replay(case: Dict[str, Any]) -> List[Tuple[str, str]]:
    return check_case(case)[0]
