"""C02 - the object model is a coherent tree with a consistent name registry.

Invariants over System.allobjects / rootobjects / contents / parent / kind and the derived relations (mro, subclasses,
implements), checked
  * after complete analysis of generated projects whose history contains re-export moves (plain, renamed, star, onto an
    already bound name), duplicate definitions (class vs function vs variable), import cycles, nested classes,
    field-only attributes and interfaces;
  * after EVERY step of a stateful machine whose steps are the operations a real run performs: add a module, process
    one module chosen by the machine (imports trigger on-demand processing of others), finish (post-processing).
Only source-driven operations are used: reparent/addObject are never called with arguments a real caller could not produce.
"""
from __future__ import annotations

import contextlib
import io
from typing import Any, Dict, List, Optional, Tuple

from ..core import Acc, Violation, hyp_run, judge, ncpu, trunc

ID = "C02"
RULE = ("projects: package p with 2-5 small modules drawn from a history grammar over a deliberately small name pool (classes A B C, "
        "functions f g, variable x) with __all__ re-exports, renamed and star imports, duplicate definitions, nested classes, @ivar "
        "fields, zope interfaces, import cycles; plus grammar-generated modules. histories: state machine add_module / process(one) / "
        "finish, invariants after every step. Non-trivial when the history contains >=1 move (re-export) or >=1 duplicate; distinct by "
        "hash of the module texts (and the step sequence).")
ASSUMPTIONS = [
    "an object named `X n` whose parent holds a different object under X is an older definition superseded by a later one",
    "classes for which an `mro` warning was emitted are exempt from the linearisation invariants",
]

HIST_STMTS = [
    'class A:\n    """A doc"""\n    def m(self): pass\n    class N:\n        x = 1',
    'class A(B):\n    def m(self): pass',
    'class B:\n    """B doc\n\n    @ivar iv: field only\n    @type iv: int\n    """\n    def m(self): pass',
    'class B(C):\n    pass',
    'class C:\n    x = 1\n    """x doc"""\n    def __init__(self):\n        self.y = 2',
    'class C(A, B):\n    pass',
    'def A():\n    """function named like the class"""',
    'def f():\n    """f doc"""',
    'def f(a):\n    pass',
    'def g(): pass',
    'A = 1',
    'x = 1\n"""x doc"""',
    'x = A',
    'B = A',
    'from p.m1 import A',
    'from p.m1 import A as B',
    'from p.m2 import B, f',
    'from .m1 import *',
    'from .m2 import *',
    'from .m3 import C as A',
    'from . import m1, m2',
    'from p import A',
    'from p import *',
    'import p.m1 as mm',
    'from p.m3 import f as g, x',
    "__all__ = ['A']",
    "__all__ = ['A', 'B', 'f']",
    "__all__ = ['B', 'C', 'x', 'g']",
    "__all__ = ['f', 'nothere']",
    "__all__ = ['m1']",
    'from p import sp', 'from . import sp', "__all__ = ['sp']", "__all__ = ['sp', 'm1', 'A']", 'from p.sp import inner', 'from .sp import inner as m2', "__all__ = ['inner', 'A']", 'from p.sp.inner import A', 'from .sp.inner import *',
    'import p.sp.inner', 'class E(p.sp.inner.A):\n    pass',
    'from zope.interface import Interface, implementer, classImplements',
    'class I(Interface):\n    """iface"""\n    def im(): pass',
    '@implementer(I)\nclass A:\n    def im(self): pass',
    'classImplements(B, I)',
    'class A:\n    class A:\n        class A:\n            pass',
    'if True:\n    class A:\n        pass\nelse:\n    class A:\n        def other(self): pass',
    'try:\n    from p.m1 import f\nexcept ImportError:\n    def f(): pass',
    'class D(A.N):\n    pass',
    'class p:\n    """class named like the package"""\n    def m(self): pass',
    'class m1:\n    pass',
    'A.__doc__ = "late doc"',
    # members whose own name contains a dot (the builder names property setters `x.setter`) next to a superseded `x`
    'class A:\n    @property\n    def x(self): return 1\n    @x.setter\n    def x(self, v): pass\n    @x.deleter\n    def x(self): pass\n    def x(self): pass',
    'class B:\n    @property\n    def m(self): return 1\n    @m.setter\n    def m(self, v): pass\n    m = 2\n    \"\"\"m doc\"\"\"\n    @property\n    def m(self): return 3\n    @m.setter\n    def m(self, v): pass',
    'class C:\n    if True:\n        @property\n        def x(self): return 1\n        @x.setter\n        def x(self, v): pass\n    if True:\n        @property\n        def x(self): return 2\n        @x.setter\n        def x(self, v): pass',
]
MODNAMES = ['m1', 'm2', 'm3', '_m4', 'p']


def st_module():
    from hypothesis import strategies as st
    return st.lists(st.sampled_from(HIST_STMTS), min_size=1, max_size=6).map(lambda l: '\n'.join(l) + '\n')


def st_project():
    from hypothesis import strategies as st
    from ..gen import pysource

    @st.composite
    def chain(draw):
        """A history in several steps: a name defined more than once, the winning definition re-exported (moved away), then the
        container it was in (module or class) re-exported too - possibly empty by then, with the older definitions still below it."""
        k = draw(st.integers(2, 3))
        shape = draw(st.sampled_from(['func', 'class', 'nested']))
        extra = draw(st.sampled_from(['', 'def other(): pass\n', 'Y = 1\n']))
        if shape == 'func':
            impl = ''.join('def f(%s):\n    """f %d"""\n' % ('a' * i, i) for i in range(k)) + extra
            export, name = 'from ._impl import f', 'f'
        elif shape == 'class':
            impl = ''.join('class X:\n    """X %d"""\n    def m%d(self): pass\n' % (i, i) for i in range(k)) + extra
            export, name = 'from ._impl import X', 'X'
        else:
            impl = 'class K:\n' + ''.join('    class Inner:\n        """Inner %d"""\n        def m%d(self): pass\n' % (i, i) for i in range(k)) + 'Inner = K.Inner\n' + extra
            export, name = 'from ._impl import Inner', 'Inner'
        second = draw(st.sampled_from(['module', 'module', 'container-class', 'none']))
        pkg_init = export + '\n__all__ = [%r]\n' % name
        top_init = ''
        if second == 'module':
            top_init = 'from .pkg import _impl\n__all__ = [\'_impl\']\n'
        elif second == 'container-class' and shape == 'nested':
            pkg_init = 'from ._impl import Inner, K\n__all__ = [\'Inner\', \'K\']\n'
        mods = [('top', None, True, top_init), ('pkg', 'top', True, pkg_init), ('_impl', 'top.pkg', False, impl)]
        if draw(st.booleans()):
            mods.append(('user', 'top', False, 'from top.pkg import %s\nfrom top.pkg._impl import %s as old\n' % (name, name)))
        return {'kind': 'project', 'mods': [list(m) for m in mods], 'order': None}

    @st.composite
    def ifacechain(draw):
        """An interface defined one to three packages deep and moved by a re-export (possibly twice), with implementers that
        recorded it under its original name (same module, analysed before the move), under the public name and under an alias."""
        depth = draw(st.integers(0, 2))
        pkgs = ['top', 'top.pkg', 'top.pkg.sub'][:depth + 1]
        home = pkgs[-1]
        how = draw(st.sampled_from(['decorator', 'classImplements', 'implements-in-body']))
        impl = 'from zope.interface import Interface, implementer, classImplements, implements\nclass I(Interface):\n    \"\"\"iface\"\"\"\n    def im(): pass\n'
        if draw(st.booleans()):
            impl += 'class J(I):\n    def jm(): pass\n'
        if how == 'decorator':
            impl += '@implementer(I)\nclass Shelf:\n    def im(self): pass\n'
        elif how == 'classImplements':
            impl += 'class Shelf:\n    def im(self): pass\nclassImplements(Shelf, I)\n'
        else:
            impl += 'class Shelf:\n    implements(I)\n    def im(self): pass\n'
        mods = []
        exporter = draw(st.integers(0, depth))
        second = draw(st.booleans()) and exporter > 0
        for i, full in enumerate(pkgs):
            body = ''
            if i == exporter:
                body = 'from %s._impl import I\n__all__ = [\'I\']\n' % home
            elif second and i == 0:
                body = 'from %s import I\n__all__ = [\'I\']\n' % pkgs[exporter]
            mods.append([full.rsplit('.', 1)[-1], full.rsplit('.', 1)[0] if '.' in full else None, True, body])
        mods.append(['_impl', home, False, impl])
        if draw(st.booleans()):
            mods.append(('user', 'top', False, 'from zope.interface import implementer\nfrom %s import I\nfrom %s._impl import I as Old\n@implementer(I)\nclass Basket:\n    pass\n@implementer(Old)\nclass Crate:\n    pass\n' % (pkgs[exporter], home)))
        if draw(st.booleans()):
            # the class declares the moved interface a second time, under its public name, among other interfaces (declared in a module
            # that is analysed after the move): every declared interface lists the class
            others = draw(st.lists(st.sampled_from(['IBar', 'IBaz', 'IQux']), min_size=1, max_size=3, unique=True))
            mods[-1 if mods[-1][0] == '_impl' else -2][3] += ''.join('class %s(Interface):\n    pass\n' % o for o in ['IBar', 'IBaz', 'IQux'])
            decl = draw(st.permutations(['I'] + others))
            mods.append(('registry', 'top', False, 'from zope.interface import classImplements\nfrom %s import I\nfrom %s._impl import Shelf, IBar, IBaz, IQux\nclassImplements(Shelf, %s)\n' % (pkgs[exporter], home, ', '.join(decl))))
        return {'kind': 'project', 'mods': [list(m) for m in mods], 'order': None}

    @st.composite
    def p(draw):
        k_ = draw(st.integers(0, 11))
        if k_ in (0, 1):
            return draw(chain())
        if k_ == 2:
            return draw(ifacechain())
        n = draw(st.integers(2, 4))
        mods = []
        mods.append(('p', None, True, draw(st.one_of(st.just(''), st_module()))))
        for name in draw(st.permutations(MODNAMES))[:n]:
            mods.append((name, 'p', False, draw(st.one_of(st_module(), st_module(), st_module(), pysource.modules(max_stmts=5)))))
        if draw(st.integers(0, 14)) == 0:
            # a root module named like one of the pages pydoctor writes itself
            mods.append((draw(st.sampled_from(['index', 'classIndex', 'moduleIndex', 'nameIndex', 'undoccedSummary'])), None, False, draw(st_module())))
        if draw(st.integers(0, 2)) == 0:
            # a sub-package with a module of its own (re-exporting it from a plain module must not move it there)
            mods.append(('sp', 'p', True, draw(st.one_of(st.just(''), st_module()))))
            mods.append(('inner', 'p.sp', False, draw(st_module())))
        if draw(st.integers(0, 3)) == 0:
            mods.append(('q', None, True, draw(st_module()).replace('p.', 'q.')))
            mods.append(('m1', 'q', False, draw(st_module())))
        # reachable schedules only: a package before its modules; siblings and roots in any order
        order = None
        if draw(st.booleans()):
            groups: Dict[Optional[str], List[int]] = {}
            for i, m in enumerate(mods):
                groups.setdefault(m[1], []).append(i)
            order = []

            def place(i: int) -> None:
                order.append(i)
                full = (mods[i][1] + '.' if mods[i][1] else '') + mods[i][0]
                for c in draw(st.permutations(groups.get(full, []))):
                    place(c)
            for r in draw(st.permutations(groups.get(None, []))):
                place(r)
        return {'kind': 'project', 'mods': [list(m) for m in mods], 'order': order}
    return p()


# ------------------------------------------------------------------ invariants

def _follow_moved(s: Any, name: str) -> Any:
    """The registered object that a module's table of local names gives for the last component of `name`, when the rest of the name
    is a registered module or class (at most 8 hops; None when it leads nowhere)."""
    for _ in range(8):
        if '.' not in name:
            return None
        head, last = name.rsplit('.', 1)
        holder = s.allobjects.get(head)
        table = getattr(holder, '_localNameToFullName_map', None)
        if table is None or last not in table:
            return None
        name = table[last]
        if name in s.allobjects:
            return s.allobjects[name]
    return None


def invariants(s: Any, finished: bool) -> List[Tuple[str, str]]:
    from pydoctor import model
    out: List[Tuple[str, str]] = []
    seen_ids: Dict[int, str] = {}
    for k, o in s.allobjects.items():
        if o.fullName() != k:
            out.append(('I1-registry-key', 'allobjects[%r] is an object whose fullName() is %r' % (k, o.fullName())))
        if id(o) in seen_ids:
            out.append(('I1-registry-key', 'the same object is registered under %r and %r' % (seen_ids[id(o)], k)))
        seen_ids[id(o)] = k
        if o.parent is None:
            if not isinstance(o, model.Module) or o not in s.rootobjects:
                out.append(('I2-parent', 'registered %r has no parent but is not a root module' % k))
        else:
            par = o.parent
            if s.allobjects.get(par.fullName()) is not par:
                out.append(('I2-parent', '%s %r is registered but its parent %r is not (registry has %r there)' % (
                    type(o).__name__, k, par.fullName(), s.allobjects.get(par.fullName()))))
            entry = par.contents.get(o.name)
            if entry is not o:
                base = o.name.rsplit(' ', 1)
                # `X n` names are only produced by System.handleDuplicate for the older definition (the later one may
                # itself have been moved away since)
                superseded = len(base) == 2 and base[1].isdigit()
                if not superseded:
                    out.append(('I2-parent', '%r is registered but is not the entry %r of its parent (entry: %r)' % (k, o.name, entry)))
        # I4 kinds
        if isinstance(o, model.Function):
            if isinstance(o.parent, model.Class) and o.kind not in (model.DocumentableKind.METHOD, model.DocumentableKind.CLASS_METHOD, model.DocumentableKind.STATIC_METHOD):
                out.append(('I4-kind', 'function %r directly in a class has kind %s' % (k, o.kind)))
            if isinstance(o.parent, model.Module) and o.kind is not model.DocumentableKind.FUNCTION:
                out.append(('I4-kind', 'function %r directly in a module has kind %s' % (k, o.kind)))
        if isinstance(o, (model.Function, model.Attribute)) and o.contents:
            out.append(('I4-kind', '%s %r has children %s' % (type(o).__name__, k, list(o.contents))))
        if isinstance(o, model.Module) and o.parent is not None and not isinstance(o.parent, model.Package):
            out.append(('I4-kind', 'module %r sits inside %s %r' % (k, type(o.parent).__name__, o.parent.fullName())))
    # I3 reachability
    def walk(o: Any, path: str) -> None:
        for name, c in o.contents.items():
            if c.name != name:
                out.append(('I3-tree', 'contents key %r of %r holds an object named %r' % (name, o.fullName(), c.name)))
            if c.parent is not o:
                out.append(('I3-tree', '%r is in the contents of %r but its parent is %r' % (name, o.fullName(), c.parent and c.parent.fullName())))
                continue
            if s.allobjects.get(c.fullName()) is not c:
                out.append(('I3-tree', '%r is reachable from a root but the registry has %r under that name' % (c.fullName(), s.allobjects.get(c.fullName()))))
            walk(c, path + '.' + name)
    for r in s.rootobjects:
        if s.allobjects.get(r.fullName()) is not r:
            out.append(('I3-tree', 'root %r is not registered' % r.fullName()))
        walk(r, r.name)
    if finished:
        mro_warned = [m for sec, m, _t in s.msgs if sec == 'mro']
        classes = [o for o in s.allobjects.values() if isinstance(o, model.Class)]
        for c in classes:
            warned = any(m.startswith('%s:%s:' % (c.description, c.linenumber)) for m in mro_warned)
            # classes below a warned class inherit its fallback linearisation
            if not warned and not any(any(m.startswith('%s:%s:' % (b.description, b.linenumber)) for m in mro_warned) for b in c.allbases(False)):
                mro = list(c.mro())
                if not mro or mro[0] is not c:
                    out.append(('I5-mro', 'mro of %r does not start with the class: %s' % (c.fullName(), mro)))
                if len(set(map(id, mro))) != len(mro):
                    out.append(('I5-mro', 'mro of %r has repeats: %s' % (c.fullName(), mro)))
                for b in c.baseobjects:
                    if b is not None and sum(1 for x in mro if x is b) != 1:
                        out.append(('I5-mro', 'resolved base %r of %r occurs %d times in its mro %s' % (b.fullName(), c.fullName(), sum(1 for x in mro if x is b), mro)))
            for b in c.baseobjects:
                if b is not None and sum(1 for x in b.subclasses if x is c) != sum(1 for x in c.baseobjects if x is b):
                    out.append(('I6-subclasses', '%r is a base of %r %d times but lists it as subclass %d times' % (
                        b.fullName(), c.fullName(), sum(1 for x in c.baseobjects if x is b), sum(1 for x in b.subclasses if x is c))))
            for sc in c.subclasses:
                if not any(b is c for b in sc.baseobjects):
                    out.append(('I6-subclasses', '%r lists subclass %r which does not have it as a base' % (c.fullName(), sc.fullName())))
            impl = getattr(c, 'implements_directly', None)
            if impl is not None:
                for iname in impl:
                    io_ = s.allobjects.get(iname)
                    if io_ is not None and getattr(io_, 'isinterface', False):
                        if c.fullName() not in [getattr(x, 'fullName', lambda: x)() if not isinstance(x, str) else x for x in getattr(io_, 'implementedby_directly', [])]:
                            out.append(('I7-implements', '%r implements %r but is not in its implementedby_directly' % (c.fullName(), iname)))
                    elif io_ is None and finished:
                        # a name that is not in the registry must not be the place an analysed interface was moved away from
                        # (the module's own table of names says where it went): the implementer has to follow it
                        tgt = _follow_moved(s, iname)
                        if tgt is not None and getattr(tgt, 'isinterface', False):
                            out.append(('I7-implements', '%r implements %r, where the interface now registered as %r used to be: the name was not updated and %r does not list the class' % (
                                c.fullName(), iname, tgt.fullName(), tgt.fullName())))
            for x in getattr(c, 'implementedby_directly', []) or []:
                xo = x if not isinstance(x, str) else s.allobjects.get(x)
                if xo is not None and c.fullName() not in (getattr(xo, 'implements_directly', []) or []):
                    out.append(('I7-implements', '%r lists %r in implementedby_directly but that class does not implement it directly' % (c.fullName(), getattr(xo, 'fullName', lambda: xo)())))
        # I8 page file names
        names: Dict[str, str] = {}
        for fixed in ('index.html', 'moduleIndex.html', 'classIndex.html', 'nameIndex.html', 'undoccedSummary.html', 'all-documents.html'):
            names[fixed] = '<summary page>'
        single_root = len(s.rootobjects) == 1
        for k, o in s.allobjects.items():
            if o.documentation_location is model.DocLocation.OWN_PAGE and o.isVisible:
                from urllib.parse import unquote
                f = unquote(o.url)
                if f == 'index.html' and single_root and o is s.rootobjects[0]:
                    # the single root is index.html by design; the link <root>.html -> index.html is written as well
                    if k != 'index' and (k + '.html') in names and names[k + '.html'] == '<summary page>':
                        out.append(('I8-page-names:summary-page', 'the link %r to the page of the single root replaces a summary page' % (k + '.html')))
                    continue
                if f in names and names[f] == '<summary page>':
                    out.append(('I8-page-names:summary-page', 'the page of %r shares the file name %r with a summary page' % (k, f)))
                elif f in names:
                    out.append(('I8-page-names', 'pages of %r and %s share the file name %r' % (k, names[f], f)))
                names[f] = repr(k)
    seen = set()
    res = []
    for sig, msg in out:
        if sig not in seen:
            seen.add(sig)
            res.append((sig, msg))
    return res


def _has_history(s: Any) -> Tuple[bool, bool]:
    moved = any(m.startswith('moving ') for sec, m, _t in s.msgs if sec == 'astbuilder')
    dup = any(' ' in k.rsplit('.', 1)[-1] for k in s.allobjects)
    return moved, dup


def check_project(case: Dict[str, Any]) -> Tuple[List[Tuple[str, str]], Dict[str, Any]]:
    from ..sysutil import make_system
    s = make_system()
    b = s.systemBuilder(s)
    for name, parent, ispkg, src in case['mods']:
        b.addModuleString(src, name, parent_name=parent, is_package=ispkg)
    if case.get('order'):
        byidx = {i: m for i, m in enumerate(list(s.unprocessed_modules))}
        neworder = [byidx[i] for i in case['order'] if i in byidx]
        rest = [m for m in s.unprocessed_modules if m not in neworder]
        s.unprocessed_modules[:] = neworder + rest
    info: Dict[str, Any] = {}
    try:
        with contextlib.redirect_stdout(io.StringIO()):
            s.process()
    except Exception as e:
        import traceback
        # an uncaught exception is C01's business (its generator and the coverage-guided stage look for them); here it
        # only means that there is no final state to check
        info['crashed'] = '%s: %s %s' % (type(e).__name__, e, traceback.format_exc()[-400:])
        return [], info
    info['moved'], info['dup'] = _has_history(s)
    desc = 'modules:\n' + '\n'.join('--- %s%s\n%s' % ((m[1] + '.' if m[1] else ''), m[0], m[3]) for m in case['mods']) + ('\norder %s' % case.get('order'))
    return [(sig, desc + '\n-> ' + msg) for sig, msg in invariants(s, True)], info


# ------------------------------------------------------------------ stateful

def run_history(case: Dict[str, Any]) -> Tuple[List[Tuple[str, str]], Dict[str, Any]]:
    """case['steps']: list of ['add', name, src] | ['process', k] | ['finish']"""
    from ..sysutil import make_system
    from pydoctor import model
    s = make_system()
    b = s.systemBuilder(s)
    b.addModuleString('', 'p', is_package=True)
    info: Dict[str, Any] = {'moved': False, 'dup': False, 'steps': 0}
    added: List[str] = []
    finished = False
    trace: List[str] = []
    for step in case['steps']:
        if finished:
            break
        try:
            with contextlib.redirect_stdout(io.StringIO()):
                if step[0] == 'add':
                    if step[1] in added:
                        continue
                    b.addModuleString(step[2], step[1], parent_name='p')
                    added.append(step[1])
                    trace.append('add p.%s:\n%s' % (step[1], step[2]))
                elif step[0] == 'process':
                    un = list(s.unprocessed_modules)
                    if not un:
                        continue
                    mod = un[step[1] % len(un)]
                    trace.append('process %s' % mod.fullName())
                    s.processModule(mod)
                else:
                    trace.append('finish')
                    s.process()
                    finished = True
        except Exception as e:
            import traceback
            return [('analysis-raises:%s' % type(e).__name__, 'history:\n%s\n-> step raised %s: %s\n%s' % ('\n'.join(trace), type(e).__name__, e, traceback.format_exc()[-700:]))], info
        info['steps'] += 1
        d = invariants(s, finished)
        if d:
            return [(sig, 'history:\n%s\n-> after this step: %s' % ('\n'.join(trace), msg)) for sig, msg in d], info
    info['moved'], info['dup'] = _has_history(s)
    return [], info


def st_history():
    from hypothesis import strategies as st
    step = st.one_of(
        st.tuples(st.just('add'), st.sampled_from(MODNAMES), st_module()).map(list),
        st.tuples(st.just('process'), st.integers(0, 5)).map(list),
    )
    return st.lists(step, min_size=2, max_size=14).map(lambda l: {'kind': 'history', 'steps': l + [['finish']]})


def machine_run(acc: Acc, n: int, seed: int) -> None:
    """The same histories through hypothesis' rule-based state machine (whole sequences shrink as one value)."""
    import hypothesis
    from hypothesis import HealthCheck, settings, strategies as st
    from hypothesis.stateful import RuleBasedStateMachine, invariant, precondition, rule, run_state_machine_as_test
    from ..sysutil import make_system
    last: Dict[str, Any] = {}

    class Analysis(RuleBasedStateMachine):
        def __init__(self) -> None:
            super().__init__()
            self.s = make_system()
            self.b = self.s.systemBuilder(self.s)
            self.b.addModuleString('', 'p', is_package=True)
            self.added: List[str] = []
            self.finished = False
            self.steps: List[Any] = []

        @precondition(lambda self: not self.finished)
        @rule(name=st.sampled_from(MODNAMES), src=st_module())
        def add_module(self, name: str, src: str) -> None:
            if name in self.added:
                return
            with contextlib.redirect_stdout(io.StringIO()):
                self.b.addModuleString(src, name, parent_name='p')
            self.added.append(name)
            self.steps.append(['add', name, src])

        @precondition(lambda self: not self.finished and bool(self.s.unprocessed_modules))
        @rule(k=st.integers(0, 5))
        def process_one(self, k: int) -> None:
            self.steps.append(['process', k])
            un = list(self.s.unprocessed_modules)
            with contextlib.redirect_stdout(io.StringIO()):
                self.s.processModule(un[k % len(un)])

        @precondition(lambda self: not self.finished and len(self.added) >= 2)
        @rule()
        def finish(self) -> None:
            self.steps.append(['finish'])
            with contextlib.redirect_stdout(io.StringIO()):
                self.s.process()
            self.finished = True

        @rule()
        def observe(self) -> None:
            """always enabled: the invariant below runs after it (also after finish)"""

        @invariant()
        def coherent(self) -> None:
            d = invariants(self.s, self.finished)
            if d:
                from .. import findings
                case = {'kind': 'history', 'steps': list(self.steps)}
                for sig, msg in d:
                    if findings.is_open(ID, sig):
                        acc.excluded[sig] += 1
                    else:
                        v = Violation(sig, msg, case)
                        last['v'] = v
                        raise v

        def teardown(self) -> None:
            acc.evals += 1
            moved, dup = _has_history(self.s)
            if moved or dup:
                from ..core import chash
                acc.nontrivial.add(chash(self.steps))
            acc.classes['machine-run'] += 1
            if moved:
                acc.classes['machine-with-move'] += 1
            if dup:
                acc.classes['machine-with-duplicate'] += 1

    st_ = settings(max_examples=n, stateful_step_count=14, database=None, deadline=None, report_multiple_bugs=False,
                   suppress_health_check=list(HealthCheck), verbosity=hypothesis.Verbosity.quiet, print_blob=False)
    try:
        run_state_machine_as_test(hypothesis.seed(seed)(Analysis), settings=st_)
    except Violation:
        acc.violations.append(last['v'].as_dict())
    except Exception as e:
        if 'v' in last:
            acc.violations.append(last['v'].as_dict())
        else:
            # an exception inside a rule = the analysis itself raised
            import traceback
            acc.violations.append({'sig': 'analysis-raises:%s' % type(e).__name__, 'msg': traceback.format_exc()[-1200:], 'case': {'kind': 'history', 'steps': []}})


def plan(tier: str, seed: int, scale: float = 1.0) -> List[Any]:
    n = ncpu()
    total = int((3000 if tier == 'quick' else 30000) * scale)
    hist = int((320 if tier == 'quick' else 3200) * scale)
    items: List[Any] = []
    for i in range(n):
        items.append({'kind': 'projects', 'n': max(1, total // n), 'seed': seed * 1000 + i})
        items.append({'kind': 'machine', 'n': max(1, hist // n), 'seed': seed * 1000 + 100 + i})
    return items


def work(item: Dict[str, Any]) -> Acc:
    acc = Acc()
    if item['kind'] == 'projects':
        def body(c):
            d, info = check_project(c)
            if info.get('crashed'):
                acc.inconclusive += 1
                acc.notes.setdefault('crash_example', info['crashed'][:400])
                return
            classes = ['project']
            if info.get('moved'):
                classes.append('with-move')
            if info.get('dup'):
                classes.append('with-duplicate')
            if info.get('moved') and info.get('dup'):
                classes.append('move-and-duplicate')
            acc.case(key=c, nontrivial=bool(info.get('moved') or info.get('dup')),
                     sample={'mods': [[m[0], m[1], trunc(m[3], 160)] for m in c['mods']]}, classes=classes)
            judge(ID, acc, c, d)
        hyp_run(acc, st_project(), body, item['n'], item['seed'])
    else:
        machine_run(acc, item['n'], item['seed'])
        acc.samples.append({'machine': 'RuleBasedStateMachine add_module/process_one/finish, invariants after every step'})
    return acc


def replay(case: Dict[str, Any]) -> List[Tuple[str, str]]:
    if case.get('kind') == 'history':
        return run_history(case)[0]
    return check_project(case)[0]
