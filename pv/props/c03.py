"""C03 - what is documented in each namespace is what Python defines there.

Differential against CPython: a generated two-module package in the statically analysable subset is imported by the
interpreter and analysed by pydoctor.  Per module and class namespace: the names documented as classes / functions /
variables are exactly those that executing the code binds there by def, class and assignment statements (definitions
inside function bodies and `if __name__ == '__main__'` blocks excluded; instance variables assigned in __init__
included); each one has the docstring inspect.cleandoc(runtime.__doc__) and the kind the interpreter gives it
(function, method, class method, static method, property, coroutine, class, exception class); a type inferred for a
variable assigned a literal is consistent with type(value).
"""
from __future__ import annotations

import ast
import inspect
import types
from typing import Any, Dict, List, Optional, Tuple

from ..core import Acc, Violation, hyp_run, judge, ncpu, trunc
from ..oracle import cpython
from ..sysutil import build, files_to_mods

ID = "C03"
RULE = ("modules of 3-10 statements over classes (bases: object / a local class / builtin exception names / an imported exception), "
        "functions with every decorator kind (classmethod, staticmethod, property, functools.cached_property, old-style "
        "f = staticmethod(f)), async defs, nested classes, variables assigned literals of every literal type and container nesting "
        "(plain, annotated with and without value, chained, flat tuple targets, self.x in __init__), docstrings in 10 layouts and "
        "non-docstrings in docstring position, placed at module / class level and inside taken if/try/with/for/while bodies, plus decoys in "
        "function bodies and __main__ blocks. Non-trivial when >=1 definition sits inside a control-flow body or has a decorator or a "
        "non-trivial docstring layout; distinct by hash of the source.")
ASSUMPTIONS = [
    "excluded (Python and pydoctor legitimately differ or the subset says so): name-to-name assignments, names bound only by for/with/except/import, nested tuple targets, else/except/finally branches and untaken bodies, property setters, rebinding with different kinds, del, metaclasses",
    "functools.cached_property counts as a property",
]

BASE_SRC = '''"""base module"""
class AppError(Exception):
    """app error"""
class Plain:
    """plain base"""
def ident(f):
    """a decorator that returns its argument"""
    return f
REG = {'keep': ident}
def fact(a):
    """a decorator factory"""
    return ident
def fact2(a):
    """a factory of decorator factories"""
    return fact
'''

COMPAT_SRC = '''"""names that are not exported"""
__all__ = %s
class AppError:
    """not an exception"""
class Plain(Exception):
    """an exception"""
def ident(f):
    return None
def cached_property(f):
    return None
REG = 1
'''

# decorators that leave the decorated object as it is: stacked above or below a kind decorator they must not change the kind
# the interpreter gives; the last four are not dotted names (subscript, call of a call, conditional expression, lambda)
EXTRA_DECOS = ['ident', 'base.ident', "fact('a')", "base.fact('a')", "REG['keep']", "fact2('a')('b')", '(ident if True else fact)', '(lambda f: f)']

DOC_LAYOUTS = [
    ('"""One line."""', True), ('"""\n{I}Text below the opening line.\n{I}"""', True), ('"""First line.\n\n{I}Second paragraph\n{I}    indented more.\n{I}"""', True),
    ("'''Single quotes.'''", True), ('r"""Raw \\d docstring."""', True), ('"implicit " "concatenation"', True), ('"""\n\n\n{I}Leading blank lines.\n\n\n{I}"""', True),
    ('"""Tabs\tinside\n{I}\tand leading tab.\n{I}"""', True), ('"""  leading spaces on first line\n{I}  and more\n{I}"""', True), ('""" """', True),
    ('f"not a docstring {1}"', False), ('b"bytes are not a docstring"', False), ('"a" + "b"', False), ('""', True), ('"""Trailing spaces   \n{I}line two   \n{I}"""', True),
]
LITERALS = ['1', '-2', '3.5', "'s'", "b'b'", 'True', 'None', '[1, 2]', '[]', "['a', 'b']", "[1, 'a']", '(1, 2)', '()', "(1, 'a')", '{1, 2}', "{'k': 1}", "{'k': 1, 'j': 'x'}", '{}',
            '[[1], [2]]', "{'k': [1]}", '(1,)', '1 + 2', "'a' 'b'", '[1.0, 2.5]', '{1: "a", 2: "b"}', '[None, None]', '2j', '...', "[(1, 2), (3, 4)]", 'frozenset()', '-1.5', '[True, False]']
# (the last ones compare __name__ but are *taken* on import: only "== '__main__'" blocks are outside the documented API)
WRAPS = [None, None, None, 'if True:', 'try:', 'with nullcontext():', 'for _loop in (0,):', 'while True:', 'if 1:', 'if not 0:',
         "if __name__ != '__main__':", "if __name__ == 'pk.mod':", "if '__main__' != __name__:", "if __name__ not in ('__main__',):", "if len(__name__) == 6:"]
EXC_BASES = ['Exception', 'ValueError', 'KeyError', 'OSError', 'AppError', 'Warning', 'BaseException']


class Gen:
    def __init__(self, draw: Any) -> None:
        self.draw = draw
        self.n = 0
        self.scopes: Dict[str, Dict[str, Dict[str, Any]]] = {}  # scope full name -> name -> record
        self.local_classes: List[Tuple[str, bool]] = []  # (name, is_exception) module-level classes usable as bases
        self.interesting = False

    def uid(self) -> int:
        self.n += 1
        return self.n

    def docstring(self, indent: str) -> Tuple[List[str], Dict[str, Any]]:
        from hypothesis import strategies as st
        if self.draw(st.integers(0, 3)) == 0:
            return [], {'has': False}
        i = self.draw(st.integers(0, len(DOC_LAYOUTS) - 1))
        text, is_doc = DOC_LAYOUTS[i]
        if i not in (0, 3):
            self.interesting = True
        uid = self.uid()
        text = text.replace('One line', 'One line %d' % uid).replace('{I}', indent)
        return [indent + l if k == 0 else l for k, l in enumerate(text.split('\n'))], {'has': True, 'layout': i}

    def wrap(self, lines: List[str], indent: str) -> List[str]:
        from hypothesis import strategies as st
        w = self.draw(st.sampled_from(WRAPS))
        if w is None:
            return lines
        self.interesting = True
        inner = ['    ' + l if l else l for l in lines]
        if w == 'try:':
            return [indent + 'try:'] + inner + [indent + 'except Exception:', indent + '    pass']
        if w == 'while True:':
            return [indent + w] + inner + [indent + '    break']
        return [indent + w] + inner

    def stmts(self, scope: str, indent: str, depth: int, in_class: bool) -> List[str]:
        from hypothesis import strategies as st
        out: List[str] = []
        rec = self.scopes.setdefault(scope, {})
        for _ in range(self.draw(st.integers(2, 5) if depth == 0 else st.integers(1, 3))):
            kind = self.draw(st.sampled_from(['class', 'func', 'func', 'var', 'var', 'decoy'] + (['family'] if depth == 0 else []) if depth < 2 else ['func', 'var']))
            if kind == 'family':
                # a small hierarchy below a builtin exception (or a plain class), whose root may be defined a second time after
                # its subclasses: every member has the kind of the root whatever the order of registration
                exc = self.draw(st.booleans())
                root_base = self.draw(st.sampled_from(EXC_BASES)) if exc else self.draw(st.sampled_from(['object', 'Plain']))
                names = ['K%d' % self.uid() for _ in range(self.draw(st.integers(2, 3)))]
                prev = root_base
                for nm in names:
                    out += [indent + 'class %s(%s):' % (nm, prev), indent + '    """One line %d."""' % self.uid()]
                    rec[nm] = {'cat': 'class', 'exception': exc}
                    self.scopes[scope + '.' + nm] = {}
                    prev = nm
                redo = self.draw(st.sampled_from(['no', 'same', 'same', 'flipped', 'flipped']))
                if redo == 'same':
                    out += [indent + 'class %s(%s):' % (names[0], root_base), indent + '    """One line %d."""' % self.uid()]
                elif redo == 'flipped':
                    # the root's name is defined again, this time below the other kind of base: the classes derived before keep the
                    # base they were given (bases are bound when the class statement runs)
                    other = self.draw(st.sampled_from(['object', 'Plain'])) if exc else self.draw(st.sampled_from(EXC_BASES))
                    guard = self.draw(st.sampled_from(['', 'if True:', 'with nullcontext():']))
                    ind2 = indent + ('    ' if guard else '')
                    if guard:
                        out.append(indent + guard)
                    out += [ind2 + 'class %s(%s):' % (names[0], other), ind2 + '    """One line %d."""' % self.uid()]
                    # (and a class derived from the new definition)
                    late = 'K%d' % self.uid()
                    out += [indent + 'class %s(%s):' % (late, names[0]), indent + '    """One line %d."""' % self.uid()]
                    rec[late] = {'cat': 'class', 'exception': not exc}
                    self.scopes[scope + '.' + late] = {}
                self.interesting = True
                continue
            if kind == 'class':
                name = 'K%d' % self.uid()
                exc = self.draw(st.integers(0, 2)) == 0
                bases: List[str] = []
                if exc:
                    cand = EXC_BASES + [n for n, e in self.local_classes if e]
                    bases = [self.draw(st.sampled_from(cand))]
                elif self.draw(st.booleans()):
                    cand = ['object', 'Plain'] + [n for n, e in self.local_classes if not e]
                    bases = [self.draw(st.sampled_from(cand))]
                # sometimes define an earlier class of this scope again (same bases, new body): the later definition is the one
                # Python keeps; classes defined in between still derive from a class of the same kind
                earlier_classes = [n for n, r in rec.items() if r['cat'] == 'class' and 'header' in r]
                if earlier_classes and self.draw(st.integers(0, 3)) == 0:
                    name = self.draw(st.sampled_from(earlier_classes))
                    exc, bases = rec[name]['header']
                    self.interesting = True
                    for k_ in [k_ for k_ in self.scopes if k_ == scope + '.' + name or k_.startswith(scope + '.' + name + '.')]:
                        del self.scopes[k_]
                lines = [indent + 'class %s%s:' % (name, '(%s)' % ', '.join(bases) if bases else '')]
                dl, dinfo = self.docstring(indent + '    ')
                lines += dl
                body = self.stmts(scope + '.' + name, indent + '    ', depth + 1, True)
                lines += body or [indent + '    pass']
                if not dl and not body:
                    pass
                rec[name] = {'cat': 'class', 'exception': exc, 'header': (exc, bases)}
                if depth == 0 and not in_class and (name, exc) not in self.local_classes:
                    self.local_classes.append((name, exc))
                out += self.wrap(lines, indent)
            elif kind == 'func':
                name = 'f%d' % self.uid()
                # sometimes redefine an earlier function of this scope: the later definition is the one Python keeps
                earlier_funcs = [n for n, r in rec.items() if r['cat'] == 'func' and n.startswith('f') and r.get('deco') not in ('property', 'cached_property', 'old-static', 'old-class')]
                if earlier_funcs and self.draw(st.integers(0, 3)) == 0:
                    name = self.draw(st.sampled_from(earlier_funcs))
                    self.interesting = True
                deco = None
                is_async = self.draw(st.integers(0, 5)) == 0
                if in_class:
                    if name in rec:
                        deco = self.draw(st.sampled_from([None, None, 'classmethod', 'staticmethod']))
                    else:
                        deco = self.draw(st.sampled_from([None, None, 'classmethod', 'staticmethod', 'property', 'cached_property', 'old-static', 'old-class']))
                    if name == '__init__':
                        deco = None
                if deco in ('property', 'cached_property'):
                    is_async = False
                if deco:
                    self.interesting = True
                params = '' if not in_class or deco in ('staticmethod', 'old-static') else ('cls' if deco in ('classmethod', 'old-class') else 'self')
                lines = []
                extra_above = extra_below = None
                if name not in rec and self.draw(st.integers(0, 3)) == 0:
                    extra_above = self.draw(st.sampled_from(EXTRA_DECOS))
                if name not in rec and self.draw(st.integers(0, 5)) == 0:
                    extra_below = self.draw(st.sampled_from(EXTRA_DECOS))
                if extra_above:
                    lines.append(indent + '@' + extra_above)
                    self.interesting = True
                if deco in ('classmethod', 'staticmethod', 'property', 'cached_property'):
                    lines.append(indent + '@' + deco)
                if extra_below:
                    lines.append(indent + '@' + extra_below)
                lines.append(indent + '%sdef %s(%s):' % ('async ' if is_async else '', name, params))
                dl, dinfo = self.docstring(indent + '    ')
                lines += dl
                lines.append(indent + '    return None')
                if deco == 'old-static':
                    lines.append(indent + '%s = staticmethod(%s)' % (name, name))
                if deco == 'old-class':
                    lines.append(indent + '%s = classmethod(%s)' % (name, name))
                rec[name] = {'cat': 'func', 'deco': deco, 'async': is_async}
                out += self.wrap(lines, indent) if deco not in ('old-static', 'old-class') else lines
            elif kind == 'var':
                form = self.draw(st.sampled_from(['plain', 'plain', 'ann', 'ann-only', 'chain', 'tuple']))
                lit = self.draw(st.sampled_from(LITERALS))
                if form == 'plain':
                    name = 'v%d' % self.uid()
                    lines = [indent + '%s = %s' % (name, lit)]
                    rec[name] = {'cat': 'var', 'literal': lit, 'inferred': True}
                elif form == 'ann':
                    name = 'v%d' % self.uid()
                    lines = [indent + '%s: object = %s' % (name, lit)]
                    rec[name] = {'cat': 'var', 'literal': lit, 'inferred': False}
                elif form == 'ann-only':
                    name = 'v%d' % self.uid()
                    lines = [indent + '%s: int' % name]
                    rec[name] = {'cat': 'var', 'annotation_only': True}
                elif form == 'chain':
                    a, b = 'v%d' % self.uid(), 'v%d' % self.uid()
                    lines = [indent + '%s = %s = %s' % (a, b, lit)]
                    rec[a] = {'cat': 'var', 'literal': lit, 'inferred': True}
                    rec[b] = {'cat': 'var', 'literal': lit, 'inferred': True}
                else:
                    a, b = 'v%d' % self.uid(), 'v%d' % self.uid()
                    lines = [indent + '%s, %s = 1, %s' % (a, b, lit)]
                    rec[a] = {'cat': 'var'}
                    rec[b] = {'cat': 'var'}
                out += self.wrap(lines, indent)
            else:
                u = self.uid()
                if self.draw(st.booleans()) and not in_class:
                    out += [indent + "if __name__ == '__main__':", indent + '    def main_only%d():' % u, indent + '        """not documented"""', indent + '    MAIN_VAR%d = 1' % u]
                else:
                    out += [indent + 'def outer%d(%s):' % (u, 'self' if in_class else ''), indent + '    def inner%d():' % u, indent + '        """ignored"""',
                            indent + '    class InFunc%d:' % u, indent + '        pass', indent + '    local%d = 1' % u, indent + '    return None']
                    rec['outer%d' % u] = {'cat': 'func', 'deco': None, 'async': False}
        if in_class and depth == 1 and self.draw(st.booleans()):
            ivs = ['iv%d' % self.uid() for _ in range(self.draw(st.integers(1, 2)))]
            out += [indent + 'def __init__(self):'] + [indent + '    self.%s = %s' % (iv, self.draw(st.sampled_from(LITERALS))) for iv in ivs]
            rec['__init__'] = {'cat': 'func', 'deco': None, 'async': False}
            for iv in ivs:
                rec[iv] = {'cat': 'var', 'instance': True}
        if in_class and depth == 1 and self.draw(st.integers(0, 7)) == 0:
            out += [indent + '__doc__ = "docstring assigned in the class body %d"' % self.uid()]
            rec['__doc__assign'] = {'cat': 'classdoc'}
        return out


def st_module():
    from hypothesis import strategies as st

    @st.composite
    def m(draw):
        g = Gen(draw)
        head = ['from functools import cached_property', 'from contextlib import nullcontext', 'from .base import AppError, Plain, ident, REG, fact, fact2', 'from . import base']
        # a star import of a module whose __all__ is empty binds nothing: the names imported before it keep their meaning
        compat = draw(st.sampled_from([None, None, '[]', '()']))
        if compat:
            head.append('from .compat import *')
        dl, _ = g.docstring('')
        body = g.stmts('pk.mod', '', 0, False)
        src = '\n'.join(dl + head + body) + '\n'
        return {'src': src, 'scopes': g.scopes, 'interesting': g.interesting, 'compat': compat}
    return m()


def _check_inferred(ann: Any, value: Any) -> Optional[str]:
    """Independent check that an inferred annotation describes the value."""
    if ann is None:
        return None
    tname = type(value).__name__
    if isinstance(ann, ast.Name):
        return None if ann.id == tname else 'inferred %s for a %s' % (ann.id, tname)
    if isinstance(ann, ast.Subscript) and isinstance(ann.value, ast.Name):
        if ann.value.id != tname:
            return 'inferred %s[...] for a %s' % (ann.value.id, tname)
        sl = ann.slice
        if isinstance(sl, ast.Index):  # py<3.9 style node kept by pydoctor
            sl = sl.value  # type: ignore
        if isinstance(value, dict):
            if not (isinstance(sl, ast.Tuple) and len(sl.elts) == 2 and all(isinstance(e, ast.Name) for e in sl.elts)):
                return 'dict parameters %s' % ast.dump(sl)
            k, v = sl.elts
            if any(type(x).__name__ != k.id for x in value.keys()) or any(type(x).__name__ != v.id for x in value.values()) or not value:
                return 'dict[%s, %s] does not describe %r' % (k.id, v.id, value)
            return None
        if isinstance(value, tuple):
            if not (isinstance(sl, ast.Tuple) and len(sl.elts) == 2 and isinstance(sl.elts[0], ast.Name)):
                return 'tuple parameters %s' % ast.dump(sl)
            if any(type(x).__name__ != sl.elts[0].id for x in value) or not value:
                return 'tuple[%s, ...] does not describe %r' % (sl.elts[0].id, value)
            return None
        if isinstance(sl, ast.Name):
            if any(type(x).__name__ != sl.id for x in value) or not value:
                return '%s[%s] does not describe %r' % (tname, sl.id, value)
            return None
        return 'parameters %s' % ast.dump(sl)
    return 'annotation %s' % ast.dump(ann)


def check_module(case: Dict[str, Any]) -> Tuple[List[Tuple[str, str]], Dict[str, Any]]:
    from pydoctor import model
    K = model.DocumentableKind
    files = {'pk/__init__.py': '', 'pk/base.py': BASE_SRC, 'pk/mod.py': case['src']}
    if case.get('compat'):
        files['pk/compat.py'] = COMPAT_SRC % case['compat']
    info: Dict[str, Any] = {'objects': 0}

    def observe(mods: Dict[str, types.ModuleType]) -> Dict[str, Any]:
        res: Dict[str, Any] = {}

        def scope_of(path: str) -> Any:
            o: Any = mods['pk.mod']
            for part in path.split('.')[2:]:
                o = vars(o)[part]
            return o
        for scope, names in case['scopes'].items():
            so = scope_of(scope)
            ns = vars(so)
            inst = None
            if inspect.isclass(so) and '__init__' in names:
                try:
                    inst = vars(so())
                except Exception:
                    inst = None
            out: Dict[str, Any] = {}
            for n, rec in names.items():
                if rec['cat'] == 'classdoc':
                    out[n] = {'doc': so.__doc__}
                    continue
                if rec.get('instance'):
                    out[n] = {'present': inst is not None and n in inst, 'kind': 'instvar'}
                    continue
                if rec.get('annotation_only'):
                    out[n] = {'present': n in ns.get('__annotations__', {}), 'kind': 'var'}
                    continue
                if n not in ns:
                    out[n] = {'present': False}
                    continue
                v = ns[n]
                d: Dict[str, Any] = {'present': True}
                if inspect.isclass(v):
                    d['kind'] = 'exception' if issubclass(v, BaseException) else 'class'
                    d['doc'] = inspect.cleandoc(v.__doc__) if v.__doc__ is not None else None
                elif isinstance(v, classmethod):
                    d['kind'] = 'classmethod'; fn = v.__func__
                    d['doc'] = inspect.cleandoc(fn.__doc__) if fn.__doc__ is not None else None
                    d['async'] = inspect.iscoroutinefunction(fn)
                elif isinstance(v, staticmethod):
                    d['kind'] = 'staticmethod'; fn = v.__func__
                    d['doc'] = inspect.cleandoc(fn.__doc__) if fn.__doc__ is not None else None
                    d['async'] = inspect.iscoroutinefunction(fn)
                elif isinstance(v, property) or type(v).__name__ == 'cached_property':
                    d['kind'] = 'property'
                    fn = v.fget if isinstance(v, property) else v.func
                    d['doc'] = inspect.cleandoc(fn.__doc__) if fn.__doc__ is not None else None
                elif inspect.isfunction(v):
                    d['kind'] = 'method' if inspect.isclass(so) else 'function'
                    d['doc'] = inspect.cleandoc(v.__doc__) if v.__doc__ is not None else None
                    d['async'] = inspect.iscoroutinefunction(v)
                else:
                    d['kind'] = 'var'
                    d['value'] = v
                out[n] = d
            res[scope] = out
            if scope == 'pk.mod':
                res['__moddoc__'] = inspect.cleandoc(so.__doc__) if so.__doc__ is not None else None
        return res
    try:
        rt = cpython.import_project(files, ['pk', 'pk.base'] + (['pk.compat'] if case.get('compat') else []) + ['pk.mod'], observe)
    except Exception as e:
        info['not_importable'] = '%s: %s' % (type(e).__name__, e)
        return [], info
    s = build(files_to_mods(files))
    out: List[Tuple[str, str]] = []
    desc = 'module pk.mod:\n' + '\n'.join('%3d| %s' % (i + 1, l) for i, l in enumerate(case['src'].split('\n')))
    mod = s.allobjects['pk.mod']
    if mod.docstring != rt.get('__moddoc__'):
        out.append(('docstring-differs', '%s\nmodule docstring is %r, the interpreter reports %r' % (desc, mod.docstring, rt.get('__moddoc__'))))
    kindmap = {'function': K.FUNCTION, 'method': K.METHOD, 'classmethod': K.CLASS_METHOD, 'staticmethod': K.STATIC_METHOD, 'property': K.PROPERTY,
               'class': K.CLASS, 'exception': K.EXCEPTION}
    for scope, names in case['scopes'].items():
        so = s.allobjects.get(scope)
        if so is None:
            out.append(('missing', '%s\nscope %s is not documented' % (desc, scope)))
            continue
        expected_names = set()
        for n, rec in names.items():
            r = rt[scope][n]
            if rec['cat'] == 'classdoc':
                if (so.docstring or None) != (inspect.cleandoc(r['doc']) if r['doc'] else None) or '__doc__' in so.contents:
                    out.append(('class-body-__doc__-assignment', '%s\n%s: `__doc__ = ...` in the class body: the interpreter reports %r, pydoctor has docstring %r and contents %s' % (
                        desc, scope, r['doc'], so.docstring, [k for k in so.contents if k == '__doc__'])))
                expected_names.add('__doc__')
                continue
            if not r.get('present'):
                continue  # not bound at run time either (should not happen in the subset)
            expected_names.add(n)
            info['objects'] += 1
            o = so.contents.get(n)
            if o is None:
                out.append(('missing', '%s\n%s.%s is bound at run time (%s) but not documented' % (desc, scope, n, r.get('kind'))))
                continue
            if r['kind'] in kindmap:
                if o.kind is not kindmap[r['kind']]:
                    out.append(('kind-differs', '%s\n%s.%s is a %s at run time, documented as %s' % (desc, scope, n, r['kind'], o.kind)))
                if 'async' in r and isinstance(o, model.Function) and bool(o.is_async) != bool(r['async']):
                    out.append(('kind-differs', '%s\n%s.%s coroutine: run time %s, documented %s' % (desc, scope, n, r['async'], o.is_async)))
                assigned_doc = '__doc__assign' in case['scopes'].get(scope + '.' + n, {})
                if not assigned_doc and (o.docstring if o.docstring is not None else None) != r['doc']:
                    out.append(('docstring-differs', '%s\ndocstring of %s.%s is %r, the interpreter reports %r' % (desc, scope, n, o.docstring, r['doc'])))
            else:
                if not isinstance(o, model.Attribute):
                    out.append(('kind-differs', '%s\n%s.%s is a variable at run time, documented as %s' % (desc, scope, n, type(o).__name__)))
                    continue
                if r['kind'] == 'instvar' and o.kind is not K.INSTANCE_VARIABLE:
                    out.append(('kind-differs', '%s\n%s.%s is an instance variable, documented as %s' % (desc, scope, n, o.kind)))
                if rec.get('inferred') and 'value' in r:
                    why = _check_inferred(o.annotation, r['value'])
                    if why:
                        out.append(('inferred-type', '%s\n%s.%s = %s: %s' % (desc, scope, n, rec['literal'], why)))
        extra = [k for k in so.contents if k not in expected_names]
        if extra:
            out.append(('invented', '%s\n%s documents %s which executing the code does not bind there' % (desc, scope, extra)))
    seen = set()
    res = []
    for sig, msg in out:
        if sig not in seen:
            seen.add(sig)
            res.append((sig, msg))
    return res, info


def plan(tier: str, seed: int, scale: float = 1.0) -> List[Any]:
    n = ncpu()
    total = int((2000 if tier == 'quick' else 30000) * scale)
    return [{'n': max(1, total // n), 'seed': seed * 1000 + i} for i in range(n)]


def work(item: Dict[str, Any]) -> Acc:
    acc = Acc()

    def body(c):
        d, info = check_module(c)
        if info.get('not_importable'):
            acc.inconclusive += 1
            acc.notes.setdefault('not_importable_example', info['not_importable'][:300] + '\n' + c['src'][:600])
            return
        acc.case(key=c['src'], nontrivial=c['interesting'], sample={'src': c['src']}, classes=['module'])
        acc.notes['objects_compared'] = acc.notes.get('objects_compared', 0) + info['objects']
        judge(ID, acc, c, d)
    hyp_run(acc, st_module(), body, item['n'], item['seed'])
    return acc


def replay(case: Dict[str, Any]) -> List[Tuple[str, str]]:
    return check_module(case)[0]
