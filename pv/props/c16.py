"""C16 - warnings point at the right place and every reported problem is counted.

Generated single modules: objects of all kinds (module, class, function, method, attribute) whose docstrings are laid
out line by line by the generator (paragraphs, list items, fields of 1-3 physical lines) with problems planted at known
lines: unresolvable cross-reference, markup error, unknown field, documented parameter that does not exist; x docformat
(epytext, reST, google, numpy) x layout (text on the opening line / below, leading blank lines, indentation depth,
raw prefix, quote style) x vertical offset.  driver.main is run with and without -W and its stdout parsed as
`<path>:<line>: <message>`.
"""
from __future__ import annotations

import re
from typing import Any, Dict, List, Optional, Tuple

from ..core import Acc, Violation, hyp_run, judge, ncpu, trunc
from ..run import pydoctor_run

ID = "C16"
RULE = ("modules with 2-5 documented objects, each docstring 1-4 blocks of 1-3 physical lines, 0-3 planted problems at known lines, "
        "x 4 docformats x docstring layouts x vertical offsets {0,1,7}; clean modules (no problem) included; an unknown tag may occur several times in a docstring. Non-trivial when >=1 "
        "problem is planted in a block of the docstring other than its first line, or the module is clean; distinct by hash of the "
        "source text and options.")
ASSUMPTIONS = [
    "epytext: the reported line must be the first line of the paragraph / list item / field; reST: a line inside that block "
    "(docutils reports inline-markup errors at the last line, cross-references at their own line); google/numpy: a line inside the docstring",
    "a docstring with a planted epytext markup error carries no other planted problem (the whole docstring falls back to plain text)",
    "exit status without -W: 2 iff a markup error or an unrenderable value was planted",
]
FORMATS = ['epytext', 'restructuredtext', 'google', 'numpy']
ODD_BOUNDARY_FORMATS = ('epytext', 'restructuredtext', 'google', 'numpy')
_MSG = re.compile(r'^(?P<path>.*?):(?P<line>\d+|\?\?\?): (?P<msg>.*)$')


def xref(fmt: str, target: str) -> str:
    return 'L{%s}' % target if fmt == 'epytext' else '`%s`' % target


class Builder:
    """Lays a module out line by line and records, for every planted problem, the allowed line range."""

    def __init__(self, fmt: str) -> None:
        self.fmt = fmt
        self.lines: List[str] = []
        self.problems: List[Dict[str, Any]] = []
        self.n = 0

    def tok(self, prefix: str) -> str:
        self.n += 1
        return '%s%dz' % (prefix, self.n)

    def add(self, text: str = '') -> int:
        self.lines.append(text)
        return len(self.lines)  # 1-based line number of the line just added


def gen_docstring(draw: Any, b: Builder, indent: int, kind: str, params: List[str], allow_problems: bool) -> None:
    """Appends a docstring (as physical lines) to b.lines."""
    from hypothesis import strategies as st
    fmt = b.fmt
    pad = ' ' * indent
    quote = draw(st.sampled_from(['"""', "'''"]))
    prefix = draw(st.sampled_from(['', '', 'r']))
    on_opening_line = draw(st.booleans())
    leading_blank = 0 if on_opening_line else draw(st.integers(0, 3))
    # blank lines may carry whitespace (editors keep the block's indentation on them) and the opening quotes may be
    # followed by trailing blanks; a whitespace-only line deeper than the text is kept by inspect.cleandoc (F35)
    blank_ws = draw(st.sampled_from(['', '', 'indent', 'partial', 'tab-free-spaces', 'deeper']))
    quote_trailing = '' if on_opening_line else draw(st.sampled_from(['', '', ' ', '   ']))
    nblocks = draw(st.integers(1, 3))
    blocks: List[Dict[str, Any]] = []
    for bi in range(nblocks):
        t = 'para' if bi == 0 else draw(st.sampled_from(['para', 'para', 'items']))
        if t == 'para':
            blocks.append({'t': 'para', 'lines': [' '.join(b.tok('w') for _ in range(draw(st.integers(1, 3)))) for _ in range(draw(st.integers(1, 3)))]})
        else:
            items = []
            for _ in range(draw(st.integers(1, 2))):
                items.append([' '.join(b.tok('w') for _ in range(2)) for _ in range(draw(st.integers(1, 2)))])
            blocks.append({'t': 'items', 'items': items})
    # characters that str.splitlines() takes for line boundaries but that do not end a line of the source file
    odd = draw(st.sampled_from([''] * 5 + ['\u2028', '\u2029', '\x85'])) if fmt in ODD_BOUNDARY_FORMATS else ''
    if odd:
        blocks[0]['lines'][0] += odd + b.tok('w')
    if fmt == 'epytext' and any(x['t'] == 'items' for x in blocks):
        # inspect.cleandoc removes the indentation common to all lines but the first: with text on the opening
        # line the list would lose the indentation epytext requires relative to the paragraphs
        on_opening_line = False
    fields: List[Dict[str, Any]] = []
    if fmt in ('epytext', 'restructuredtext'):
        if kind in ('function', 'method'):
            for p in params:
                if draw(st.booleans()):
                    fields.append({'tag': 'param', 'arg': p, 'lines': [b.tok('w')] + ([b.tok('w')] if draw(st.booleans()) else [])})
        if draw(st.integers(0, 2)) == 0:
            fields.append({'tag': 'note', 'arg': None, 'lines': [b.tok('w')] + ([b.tok('w')] if draw(st.booleans()) else [])})
        if kind == 'class' and params:
            # the class docstring gives the type of a variable assigned in the class body, and may describe it too
            for v in params:
                if draw(st.booleans()):
                    if draw(st.booleans()):
                        # (a variable that also has a docstring of its own below its assignment shows that one: the description given by
                        # the field is superseded, a problem in it is not a problem of anything that is shown)
                        fields.append({'tag': draw(st.sampled_from(['ivar', 'cvar', 'var'])), 'arg': v.lstrip('+'), 'lines': [b.tok('w')], 'superseded': v.startswith('+')})
                    fields.append({'tag': 'type', 'arg': v.lstrip('+'), 'lines': [b.tok('w')] + ([b.tok('w')] if draw(st.booleans()) else [])})
    # ---- plant problems
    nprob = draw(st.sampled_from([0, 0, 1, 1, 2, 3])) if allow_problems else 0
    planted: List[Dict[str, Any]] = []
    has_fatal = False
    for _ in range(nprob):
        choices = ['xref', 'xref']
        if fmt in ('epytext', 'restructuredtext'):
            choices += ['unknown-field', 'markup']
            if kind in ('function', 'method'):
                choices.append('bad-param')
        elif kind in ('function', 'method'):
            choices.append('bad-param')
        pk = draw(st.sampled_from(choices))
        if has_fatal:
            break
        if pk == 'markup':
            if fmt == 'epytext' and planted:
                continue
            # inside a paragraph line
            paras = [x for x in blocks if x['t'] == 'para']
            blk = draw(st.sampled_from(paras))
            li = draw(st.integers(0, len(blk['lines']) - 1))
            blk['lines'][li] += ' B{unclosed' if fmt == 'epytext' else ' *unclosed'
            planted.append({'kind': 'markup', 'block': blk, 'line': li, 'token': None})
            if fmt == 'epytext':
                has_fatal = True
        elif pk == 'xref':
            token = b.tok('nosuchT')
            plantable = [f_ for f_ in fields if not f_.get('superseded')]
            where = draw(st.sampled_from(['block'] + (['field'] if plantable else [])))
            if where == 'field':
                f = draw(st.sampled_from(plantable))
                li = draw(st.integers(0, len(f['lines']) - 1))
                f['lines'][li] += ' ' + xref(fmt, token)
                planted.append({'kind': 'xref', 'block': f, 'line': li, 'token': token})
            else:
                blk = draw(st.sampled_from(blocks))
                if blk['t'] == 'para':
                    li = draw(st.integers(0, len(blk['lines']) - 1))
                    blk['lines'][li] += ' ' + xref(fmt, token)
                    planted.append({'kind': 'xref', 'block': blk, 'line': li, 'token': token})
                else:
                    ii = draw(st.integers(0, len(blk['items']) - 1))
                    it = blk['items'][ii]
                    li = draw(st.integers(0, len(it) - 1))
                    it[li] += ' ' + xref(fmt, token)
                    planted.append({'kind': 'xref', 'block': {'t': 'item', 'lines': it, 'of': blk, 'index': ii}, 'line': li, 'token': token})
        elif pk == 'unknown-field':
            # the same unknown tag may occur more than once in a docstring: each occurrence is a problem of its own
            earlier = [q['token'] for q in planted if q['kind'] == 'unknown-field']
            token = draw(st.sampled_from(earlier)) if earlier and draw(st.booleans()) else b.tok('unknownf')
            f = {'tag': token, 'arg': None, 'lines': [b.tok('w')] + ([b.tok('w')] if draw(st.booleans()) else [])}
            fields.insert(draw(st.integers(0, len(fields))), f)
            planted.append({'kind': 'unknown-field', 'block': f, 'line': 0, 'token': token})
        elif pk == 'bad-param':
            token = b.tok('nosuchP')
            if fmt in ('epytext', 'restructuredtext'):
                f = {'tag': 'param', 'arg': token, 'lines': [b.tok('w')] + ([b.tok('w')] if draw(st.booleans()) else [])}
                fields.insert(draw(st.integers(0, len(fields))), f)
                planted.append({'kind': 'bad-param', 'block': f, 'line': 0, 'token': token})
            else:
                planted.append({'kind': 'bad-param', 'block': None, 'line': 0, 'token': token, 'section': True})
    if has_fatal:
        planted = [p for p in planted if p['kind'] == 'markup']
    # ---- lay out
    first_line_no: Optional[int] = None

    def emit(text: str) -> int:
        nonlocal first_line_no
        ln = b.add(text)
        if first_line_no is None:
            first_line_no = ln
        return ln
    opened = False
    ranges: Dict[int, Tuple[int, int]] = {}
    line_of: Dict[Tuple[int, int], int] = {}

    def put(text: str) -> int:
        nonlocal opened
        if not opened:
            opened = True
            if on_opening_line:
                return emit(pad + prefix + quote + text.lstrip())
            emit(pad + prefix + quote + quote_trailing)
            for _ in range(leading_blank):
                emit({'': '', 'indent': pad, 'partial': pad[:len(pad) // 2], 'tab-free-spaces': ' ' if pad else '', 'deeper': pad + '      '}[blank_ws])
        return emit(text)
    for bi, blk in enumerate(blocks):
        if bi:
            put('')
        if blk['t'] == 'para':
            nums = [put(pad + l) for l in blk['lines']]
            ranges[id(blk)] = (nums[0], nums[-1])
            for i, nline in enumerate(nums):
                line_of[(id(blk), i)] = nline
        else:
            ipad = pad + ('  ' if fmt == 'epytext' else '')
            for ii, it in enumerate(blk['items']):
                nums = []
                for li, l in enumerate(it):
                    nums.append(put(ipad + ('- ' if li == 0 else '  ') + l))
                ranges[id(it)] = (nums[0], nums[-1])
                for i, nline in enumerate(nums):
                    line_of[(id(it), i)] = nline
    section_param = [p for p in planted if p.get('section')]
    if fields or section_param:
        put('')
    if fmt in ('epytext', 'restructuredtext'):
        for f in fields:
            head = f['tag'] + ((' ' + f['arg']) if f['arg'] else '')
            nums = []
            for li, l in enumerate(f['lines']):
                nums.append(put(pad + ((('@%s: ' if fmt == 'epytext' else ':%s: ') % head) + l if li == 0 else '    ' + l)))
            ranges[id(f)] = (nums[0], nums[-1])
            for i, nline in enumerate(nums):
                line_of[(id(f), i)] = nline
    elif kind in ('function', 'method') and (section_param or draw(st.booleans())):
        documented = [p for p in params if draw(st.booleans())]
        if documented or section_param:
            if fmt == 'google':
                put(pad + 'Args:')
                for p in documented:
                    put(pad + '    %s: %s' % (p, b.tok('w')))
                for sp in section_param:
                    put(pad + '    %s: %s' % (sp['token'], b.tok('w')))
            else:
                put(pad + 'Parameters')
                put(pad + '----------')
                for p in documented:
                    put(pad + p)
                    put(pad + '    ' + b.tok('w'))
                for sp in section_param:
                    put(pad + sp['token'])
                    put(pad + '    ' + b.tok('w'))
    if not opened:
        put(pad + 'x')
    last = b.add(pad + quote)
    doc_range = (first_line_no or last, last)
    for p in planted:
        blk = p['block']
        if blk is None:
            rng = doc_range
            exact_first = None
        elif blk.get('t') == 'item':
            rng = ranges[id(blk['lines'])]
            exact_first = rng[0]
        else:
            rng = ranges[id(blk)]
            exact_first = rng[0]
        if fmt in ('google', 'numpy'):
            allowed = doc_range
        elif fmt == 'epytext' or p['kind'] == 'markup':
            # epytext reports the first line of the block; so does docutils for inline markup errors
            allowed = (exact_first, exact_first) if exact_first else rng
        else:
            allowed = rng
        b.problems.append({'kind': p['kind'], 'token': p['token'], 'allowed': list(allowed), 'block': list(rng), 'doc': list(doc_range),
                           'planted_line_in_block': p['line'], 'object_kind': kind})


def st_module():
    from hypothesis import strategies as st

    @st.composite
    def m(draw):
        fmt = draw(st.sampled_from(FORMATS))
        clean = draw(st.integers(0, 4)) == 0
        b = Builder(fmt)
        offset = draw(st.sampled_from([0, 0, 1, 7]))
        for i in range(offset):
            b.add('# leading comment line %d' % i if draw(st.booleans()) else '')
        if draw(st.booleans()):
            gen_docstring(draw, b, 0, 'module', [], not clean)
        b.add('import os')
        nobj = draw(st.integers(1, 4))
        for oi in range(nobj):
            k = draw(st.sampled_from(['function', 'class', 'attr']))
            for _ in range(draw(st.integers(0, 2))):
                b.add('')
            if k == 'function':
                b.add('def f%d(a, b=1):' % oi)
                gen_docstring(draw, b, 4, 'function', ['a', 'b'], not clean)
                b.add('    return a')
            elif k == 'attr':
                b.add('X%d = %d' % (oi, oi))
                gen_docstring(draw, b, 0, 'attr', [], not clean)
            else:
                b.add('class C%d:' % oi)
                # ('+': the variable also gets a docstring of its own, below its assignment)
                tvars = draw(st.sampled_from([[], [], ['tv'], ['tv', 'tw'], ['+tv'], ['+tv', 'tw']]))
                gen_docstring(draw, b, 4, 'class', tvars, not clean)
                for tv in tvars:
                    b.add('    %s = 2' % tv.lstrip('+'))
                    if tv.startswith('+'):
                        gen_docstring(draw, b, 4, 'attr', [], not clean)
                b.add('    def m(self, a):')
                gen_docstring(draw, b, 8, 'method', ['a'], not clean)
                b.add('        pass')
                if draw(st.booleans()):
                    b.add('    cv = 1')
                    gen_docstring(draw, b, 4, 'attr', [], not clean)
                if draw(st.integers(0, 2)) == 0:
                    # a subclass that overrides the method without a docstring of its own inherits the one above: its problems
                    # are problems of that docstring (same file, same lines), reported once
                    b.add('class D%d(C%d):' % (oi, oi))
                    b.add('    def m(self, a):')
                    b.add('        pass')
        broken_value = (not clean) and draw(st.integers(0, 6)) == 0
        if broken_value:
            b.add('NBSP_CONSTANT = "a\\xa0b"')
            b.add('"""doc of the constant"""')
        # a second root, listed (and written) first, whose classes override the documented methods without a docstring: the problems
        # of the inherited docstrings are those of mod.py, whichever page is rendered first
        classes = [ln.split()[1].split(':')[0].split('(')[0] for ln in b.lines if ln.startswith('class C')]
        subfile = None
        if classes and draw(st.integers(0, 2)) == 0:
            subfile = 'from mod import %s\n' % ', '.join(classes) + ''.join('class S%s(%s):\n    def m(self, a):\n        pass\n' % (c_, c_) for c_ in classes)
        # a third root that re-exports (moves) some of the documented classes and functions: their problems are still those of the
        # file they are written in, at the lines of that file
        rexfile = None
        tops = [ln.split()[1].split(':')[0].split('(')[0] for ln in b.lines if ln.startswith(('class C', 'def f'))]
        if tops and subfile is None and draw(st.integers(0, 2)) == 0:
            moved = draw(st.lists(st.sampled_from(tops), min_size=1, max_size=3, unique=True))
            rexfile = 'from mod import %s\n__all__ = [%s]\n' % (', '.join(moved), ', '.join(repr(x) for x in moved))
        return {'fmt': fmt, 'src': '\n'.join(b.lines) + '\n', 'problems': b.problems, 'broken_value': broken_value, 'offset': offset, 'subfile': subfile, 'rexfile': rexfile}
    return m()


def run_module(src: str, fmt: str, W: bool, subfile: Optional[str] = None, rexfile: Optional[str] = None) -> Tuple[Optional[int], List[Tuple[str, Any, str]], str]:
    files = {'mod.py': src}
    roots = ['mod.py']
    if subfile:
        files['a_sub.py'] = subfile
        roots = ['a_sub.py', 'mod.py']
    if rexfile:
        files['exp_z.py'] = rexfile
        roots = ['exp_z.py', 'mod.py']
    with pydoctor_run(files, roots, ['--docformat=' + fmt, '--project-name=p'] + (['-W'] if W else []), timeout=120) as r:
        if r.exc is not None or r.timeout:
            return None, [], (r.tb or 'timeout')[-500:]
        msgs = []
        for l in r.stdout.splitlines():
            m = _MSG.match(l)
            if m and m.group('path').endswith('mod.py'):
                ln = m.group('line')
                msgs.append((m.group('path'), int(ln) if ln.isdigit() else ln, m.group('msg')))
        return r.code, msgs, ''


ODD_BOUNDARIES = '\u2028\u2029\x85\x0b\x0c\x1c\x1d\x1e'
SHIFTED = 'line-shifted-after-docutils-line-boundary-character'


def _shifted(src: str, fmt: str, allowed: Tuple[int, int], l: Any) -> bool:
    """docutils splits its input at every character str.splitlines() takes for a line boundary: in the formats it parses, a line
    reported after such a character is too large by the number of those characters before it (finding F55)"""
    if fmt == 'epytext' or not isinstance(l, int) or l <= allowed[1]:
        return False
    n = sum(ln.count(c) for ln in src.split('\n')[:l] for c in ODD_BOUNDARIES)
    return 0 < l - allowed[1] <= n


def check_module(case: Dict[str, Any]) -> Tuple[List[Tuple[str, str]], Dict[str, Any]]:
    fmt, src, problems = case['fmt'], case['src'], case['problems']
    out: List[Tuple[str, str]] = []
    info: Dict[str, Any] = {'first_line_hits': 0, 'reports': 0}
    code, msgs, err = run_module(src, fmt, False, case.get('subfile'), case.get('rexfile'))
    if code is None:
        info['crashed'] = err
        return [], info
    codeW, msgsW, err = run_module(src, fmt, True, case.get('subfile'), case.get('rexfile'))
    if codeW is None:
        info['crashed'] = err
        return [], info
    desc = '%s module\n%s' % (fmt, '\n'.join('%3d| %s' % (i + 1, l) for i, l in enumerate(src.split('\n')[:-1])))
    shown = '\n'.join('%s: %s' % (l, m) for _p, l, m in msgs)
    # every planted problem is reported at an allowed line, and nowhere else
    markup_lines_allowed = [p['allowed'] for p in problems if p['kind'] == 'markup']
    for p in problems:
        if p['kind'] == 'markup':
            hits = [(l, m) for _pth, l, m in msgs if 'bad docstring' in m and isinstance(l, int) and p['allowed'][0] <= l <= p['allowed'][1]]
            if not hits and any('bad docstring' in m and _shifted(src, fmt, p['allowed'], l) for _pth, l, m in msgs):
                out.append((SHIFTED, '%s\nmarkup error planted in block lines %s is reported further down; messages:\n%s' % (desc, p['block'], shown)))
            elif not hits:
                out.append(('markup-error-line', '%s\nmarkup error planted in block lines %s (allowed %s) is not reported there; messages:\n%s' % (desc, p['block'], p['allowed'], shown)))
            continue
        rel = [(l, m) for _pth, l, m in msgs if p['token'] in m]
        same = [q for q in problems if q['token'] == p['token']]
        if len(same) > 1:
            # several planted problems share the token: each needs a report of its own, each report belongs to one of them
            mine = [(l, m) for l, m in rel if isinstance(l, int) and p['allowed'][0] <= l <= p['allowed'][1]]
            if not mine and any(_shifted(src, fmt, p['allowed'], l) for l, m in rel):
                out.append((SHIFTED, '%s\nplanted %s %s (block lines %s) is reported further down; messages:\n%s' % (desc, p['kind'], p['token'], p['block'], shown)))
            elif not mine:
                out.append(('problem-not-reported', '%s\nplanted %s %s (block lines %s; the tag occurs %d times in the docstring) is not reported; messages:\n%s' % (
                    desc, p['kind'], p['token'], p['block'], len(same), shown)))
            info['reports'] += len(mine)
            for l, m in rel:
                if not any(isinstance(l, int) and q['allowed'][0] <= l <= q['allowed'][1] for q in same):
                    out.append((SHIFTED if any(_shifted(src, fmt, q['allowed'], l) for q in same) else 'wrong-line:' + p['kind'], '%s\nplanted %s %s, reported at line %s which is in none of the blocks %s: %s' % (
                        desc, p['kind'], p['token'], l, [q['allowed'] for q in same], m)))
            continue
        if not rel:
            out.append(('problem-not-reported', '%s\nplanted %s %s (block lines %s) is not reported; messages:\n%s' % (desc, p['kind'], p['token'], p['block'], shown)))
            continue
        for l, m in rel:
            info['reports'] += 1
            if isinstance(l, int) and l == p['block'][0]:
                info['first_line_hits'] += 1
            if not isinstance(l, int) or not (p['allowed'][0] <= l <= p['allowed'][1]):
                out.append((SHIFTED if _shifted(src, fmt, p['allowed'], l) else 'wrong-line:' + p['kind'], '%s\nplanted %s %s in %s docstring, block lines %s, allowed lines %s, reported at line %s: %s' % (
                    desc, p['kind'], p['token'], p['object_kind'], p['block'], p['allowed'], l, m)))
    stray = [(l, m) for _pth, l, m in msgs if 'bad docstring' in m and not any(isinstance(l, int) and a[0] <= l <= a[1] for a in markup_lines_allowed)]
    if stray and all(any(_shifted(src, fmt, a, l) for a in markup_lines_allowed) for l, m in stray):
        out.append((SHIFTED, '%s\nmarkup errors reported below the block they were planted in: %s' % (desc, stray[:3])))
    elif stray:
        out.append(('unplanted-markup-error', '%s\nmarkup errors reported where none was planted: %s' % (desc, stray[:3])))
    # counting and exit status
    nplanted = len(problems) + (1 if case.get('broken_value') else 0)
    unparsable = any(p['kind'] == 'markup' for p in problems) or bool(case.get('broken_value'))
    want_W = 3 if nplanted else 0
    want = 2 if unparsable else 0
    if codeW != want_W:
        out.append(('exit-status-W', '%s\nwith -W the run ends with status %s, expected %s (%d problems planted); messages:\n%s' % (desc, codeW, want_W, nplanted, shown)))
    if code != want:
        out.append(('exit-status', '%s\nwithout -W the run ends with status %s, expected %s; messages:\n%s' % (desc, code, want, shown)))
    if not nplanted and msgs:
        out.append(('clean-module-warns', '%s\nclean module produces messages:\n%s' % (desc, shown)))
    if [(l, m) for _p, l, m in msgs] != [(l, m) for _p, l, m in msgsW]:
        out.append(('W-changes-messages', '%s\nmessages differ with -W' % desc))
    # metamorphic: shift by k
    k = case.get('shift', 3)
    code2, msgs2, err = run_module('# shift\n' * k + src if not src.startswith(('"""', "'''", 'r"""', "r'''")) or True else src, fmt, False, case.get('subfile'), case.get('rexfile'))
    if code2 is not None:
        a = sorted((l + k if isinstance(l, int) else l, m) for _p, l, m in msgs)
        bb = sorted((l, m) for _p, l, m in msgs2)
        if a != bb:
            diff = [x for x in a if x not in bb][:3], [x for x in bb if x not in a][:3]
            out.append(('shift-not-by-k', '%s\nmoving everything down by %d lines does not move the reported lines by %d: %s' % (desc, k, k, diff)))
    seen = set()
    res = []
    for sig, msg in out:
        if sig not in seen:
            seen.add(sig)
            res.append((sig, msg))
    return res, info


def plan(tier: str, seed: int, scale: float = 1.0) -> List[Any]:
    n = ncpu()
    total = int((640 if tier == 'quick' else 10000) * scale)
    return [{'n': max(1, total // n), 'seed': seed * 1000 + i} for i in range(n)]


def work(item: Dict[str, Any]) -> Acc:
    acc = Acc()

    def body(c):
        d, info = check_module(c)
        if info.get('crashed'):
            acc.inconclusive += 1
            acc.notes.setdefault('crash_example', info['crashed'][:300])
            return
        deep = any(p['planted_line_in_block'] > 0 or p['block'][0] != p['doc'][0] for p in c['problems'])
        acc.case(key=(c['src'], c['fmt']), nontrivial=deep or not c['problems'],
                 sample={'fmt': c['fmt'], 'src': c['src'], 'problems': [{k: v for k, v in p.items()} for p in c['problems']]},
                 classes=['fmt-' + c['fmt'], 'clean' if not c['problems'] and not c.get('broken_value') else 'with-problems'] + ['kind-' + p['kind'] for p in c['problems']])
        acc.notes['reports_total'] = acc.notes.get('reports_total', 0) + info['reports']
        acc.notes['reports_on_first_line_of_block'] = acc.notes.get('reports_on_first_line_of_block', 0) + info['first_line_hits']
        judge(ID, acc, c, d)
    hyp_run(acc, st_module(), body, item['n'], item['seed'])
    return acc


def replay(case: Dict[str, Any]) -> List[Tuple[str, str]]:
    return check_module(case)[0]
