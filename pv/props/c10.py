"""C10 - generated pages are well-formed and source text can never become markup.

A template project has a slot in every source-derived position (docstring words and field arguments in each
docformat, string constants, defaults, string and Literal annotations, decorator arguments incl.
@deprecated(replacement=), base-class subscripts, type aliases and TypeVar names, module file stems, the
--project-name/--project-url/--project-version/--html-viewsource-base options).  A run with *canaries* (HTML
metacharacters, entity look-alikes, CDATA/comment/PI delimiters, control characters, and - outside docstrings - the
markup metacharacters of reST/epytext) is compared with a control run in which every canary is replaced by an equally
long alphanumeric token:
 (a) every page parses with a strict XML parser (illegal XML characters set aside);
 (b) no element or attribute name outside the vocabulary of the control run;
 (c) the sequence of (element, attribute names) of every page equals the control run's (canaries are inert);
 (d) every occurrence of the canary marker is in a text node or in the value of an attribute from a fixed safe list.
Also grammar-generated trees: (a) for every page of every run.
"""
from __future__ import annotations

import os
from typing import Any, Dict, List, Optional, Tuple

from ..core import Acc, Violation, hyp_run, judge, ncpu, trunc
from ..oracle import crawl
from ..run import pydoctor_run

ID = "C10"
RULE = ("template project with 30 canary slots (incl. docstring text that markup puts into an attribute value: image alt, link targets) x subsets of slots x canaries built from the pieces "
        "< > & \" ' &lt; &#0; &zq; ]]> <!-- --> <? <script> onload= and control characters (all positions) plus ` * _ | { } :: \\ "
        "(non-docstring positions), x 5 docformats x themes; and grammar-generated trees for well-formedness. Non-trivial when "
        ">=1 canary with >=1 metacharacter reached >=1 page; distinct by hash of (slots, canaries, docformat).")
ASSUMPTIONS = [
    "docstrings containing the explicit `.. raw::` / `.. include::` directives are exempt by the statement and not generated here",
    "canaries in docstring positions avoid the metacharacters of the docformat itself (there they are markup by definition)",
    "safe attributes for source text: href, title, id, name, class, data-type, content, alt, value",
]
SAFE_ATTRS = {'href', 'title', 'id', 'name', 'class', 'data-type', 'content', 'alt', 'value', 'src'}
HTML_PIECES = ['<', '>', '&', '"', "'", '&lt;', '&#0;', '&zq;', '&amp;', ']]>', '<!--', '-->', '<?', '?>', '<script>', '</script>', '<b>', '</p>', '<img src=x onerror=y>', ' onload="z" ',
               '<![CDATA[', '/>', '</div></div>', 'javascript:', '\x1b', '\x0c', '\x01', ' ', 'a', 'Z', '0', '=', ';', '#', '%3C', '%', '+']
MARKUP_PIECES = ['`', '``', '*', '**', '_', '|', '{', '}', 'L{', 'C{', '::', '\\', ':ref:`x`', '.. raw:: html', '@param', '\\n', '[', ']', '(', ')',
                 # whole attack payloads against text that is interpolated into reST (extensions/deprecate.py)
                 'x`` `click <javascript:alert(1)>`_ ``y', '`` `t <http://evil.example/>`_ ``', 'x`` |sub| ``y', '`` :raw-html:`<script>alert(1)</script>` ``',
                 '`` .. raw:: html <script>a</script> ``', '``\\ `a`_ ``', '`` **bold** *em* ``', '`_', '`__', '`` <b> ``']
HTML_ATTACKS = ['<script>alert(1)</script>', '"><img src=x onerror=alert(1)>', "' onmouseover='alert(1)", ']]><x>', '--><x y="z">', '&#60;x&#62;', '<a href="javascript:alert(1)">c</a>',
                '</code></pre></div><iframe src=//e>', '<!--', '<?php x ?>', '&nbsp;&copy;&zq;', '<![CDATA[x]]>', '\x1b[0m\x01']
# every character str.splitlines() (hence docutils) treats as a line boundary, and directive payloads framed by them
LINE_BREAKERS = ['\x0b', '\x1c', '\x1d', '\x1e', '\x85', '\u2028', '\u2029']
MARKUP_PIECES += LINE_BREAKERS
MARKUP_ATTACKS = [p for p in MARKUP_PIECES if len(p) > 6] + ['old%s%s.. raw:: html%s%s <script>alert(1)</script>%s%snew' % ((b,) * 6) for b in LINE_BREAKERS] + [
                  'x%s.. image:: javascript:alert(1)%sy' % (b, b) for b in LINE_BREAKERS[:3]] + ['U{javascript:alert(1)}', 'L{<b>}', 'C{x}E{lb}', ' javascript:alert(1) ', ' http://evil.example/ ', '*em* **st** `ref`_ |s| [1]_',
                                                        'x ``y', '`', '\\`` `a <b>`_ ``']
# file names that are reST markup (a module's name is spelled out in generated text)
STEM_MARKUP = ['m` `x <javascript:alert(1)>`_ **bold** `n', 'a` **b** `c', 'x`_ `y', '``lit`` *em*', 'a`\\ <b>', '|sub|', 'x_', '`t`_']
DOC_SLOTS = ['doc_mod', 'doc_cls', 'doc_meth', 'doc_attr', 'docfield_param', 'docfield_ivar']
CODE_SLOTS = ['const', 'const_nested', 'default', 'default_lambda', 'default_ifexp', 'default_cmp', 'default_comp', 'const_lambda', 'ann_str', 'ann_literal', 'ann_return', 'deco_arg', 'deprecated_repl', 'deprecated_ver', 'base_sub', 'alias', 'typevar']
OPT_SLOTS = ['project_name', 'project_url', 'project_version', 'viewsource_base']
STEM_SLOT = 'stem'
# (the module named by the payload also holds objects that are referred to by name from generated text: a deprecation whose replacement
# is written as a name is spelled out with the module's name in it)
STEM_SRC = ('"""stem module"""\nfrom twisted.python.deprecate import deprecated\nfrom incremental import Version\nclass InStem:\n    def f(self): pass\n'
            '    @deprecated(Version("pkg", 1, 2, 3), replacement=f)\n    def old(self):\n        pass\ndef newfunc(): pass\n'
            '@deprecated(Version("pkg", 1, 2, 3), replacement=newfunc)\ndef oldfunc():\n    pass\n@deprecated(Version("pkg", 1, 2, 3), replacement=InStem.f)\ndef older():\n    pass\n')
# docstring text that markup itself places in an attribute value: the alternative text of a reST image, the target of a reST or
# epytext hyperlink.  Quotes in it must not end the attribute.
ATTR_SLOTS = ['rst_image_alt', 'rst_link_uri', 'epy_link_uri']
# the label of an epytext link (to an object, to a URL): text, whatever it looks like
LABEL_SLOTS = ['epy_xref_label', 'epy_url_label']
ATTR_PIECES = ['"', "'", ' ', 'a', '=', 'onload', 'x', '&', ';', '&quot;', '%22', '/', '#', '?', '<', '>']
ATTR_ATTACKS = ['x" onload="alert(1)', "x' onmouseover='alert(1)", 'x" onmouseover="alert(1)" y="', 'a"b', "a'b", '"', 'x" style="display:none', '"><script>alert(1)</script>',
                '&quot; onload=&quot;x', 'x"onfocus=alert(1) autofocus="', '" a="1" b="2']
ALL_SLOTS = DOC_SLOTS + CODE_SLOTS + OPT_SLOTS + [STEM_SLOT] + ATTR_SLOTS + LABEL_SLOTS
MARK_L, MARK_R = 'zq9', '9qz'
# rendered through astor's pretty-printer, which lays long strings out over several lines at blanks: short payloads without blanks
GENERIC_SLOTS = ('default_lambda', 'default_ifexp', 'default_cmp', 'default_comp', 'const_lambda')
UNPARSABLE_SLOTS = ('ann_str', 'ann_return', 'alias', 'deprecated_repl')  # also: @deprecated(replacement=) links valid identifiers only


def build_project(values: Dict[str, str], fmt: str) -> Tuple[Dict[str, str], List[str], List[str]]:
    """values: slot -> text placed there (canary or control)."""
    v = values
    r = repr

    def sentence(slot: str) -> str:
        return 'Some words %s and more words.' % v[slot]
    if fmt == 'epytext':
        fparam = '@param a: %s' % v['docfield_param']
        fivar = '@ivar iv: %s' % v['docfield_ivar']
    elif fmt == 'restructuredtext':
        fparam = ':param a: %s' % v['docfield_param']
        fivar = ':ivar iv: %s' % v['docfield_ivar']
    elif fmt == 'google':
        fparam = 'Args:\n    a: %s' % v['docfield_param']
        fivar = 'Attributes:\n    iv: %s' % v['docfield_ivar']
    elif fmt == 'numpy':
        fparam = 'Parameters\n----------\na\n    %s' % v['docfield_param']
        fivar = 'Attributes\n----------\niv\n    %s' % v['docfield_ivar']
    else:
        fparam = v['docfield_param']
        fivar = v['docfield_ivar']
    src = '\n'.join([
        r(sentence('doc_mod')),
        'from typing import Literal, TypeVar, Generic, Union, List',
        'from twisted.python.deprecate import deprecated',
        'from incremental import Version',
        'CONST = %s' % r(v['const']),
        'NESTED = {%s: [%s, %s, (%s,)]}' % (r(v['const_nested']), r(v['const_nested']), r(v['const_nested'].encode('utf-8', 'replace')), r(v['const_nested'])),
        'Alias = Union[int, %s]' % r(v['alias']),
        'T = TypeVar(%s)' % r(v['typevar']),
        'def deco(*a, **k):',
        '    return lambda f: f',
        'class Base(Generic[T]):',
        '    pass',
        'class C(Base[%s]):' % r(v['base_sub']),
        '    ' + r(sentence('doc_cls') + '\n\n' + fivar),
        '    attr: Literal[%s] = %s' % (r(v['ann_literal']), r(v['const'])),
        '    ' + r(sentence('doc_attr')),
        '    @deco(%s, key=%s)' % (r(v['deco_arg']), r(v['deco_arg'])),
        '    def m(self, a=%s, b: %s = None, *c: "int", **d) -> %s:' % (r(v['default']), r(v['ann_str']), r(v['ann_return'])),
        '        ' + r(sentence('doc_meth') + '\n\n' + fparam),
        '    @deprecated(Version(%s, 1, 2, 3), replacement=%s)' % (r(v['deprecated_ver']), r(v['deprecated_repl'])),
        '    def old(self):',
        '        pass',
        # expressions that the value colouriser hands to its generic fallback (one piece of text)
        # (one function each: a signature that cannot be rendered is replaced as a whole)
        'def generic_lambda(p=lambda: %s):' % r(v['default_lambda']), '    pass',
        'def generic_ifexp(q=%s if CONST else %s):' % (r(v['default_ifexp']), r(v['default_ifexp'])), '    pass',
        'def generic_cmp(r=(1 != %s)):' % r(v['default_cmp']), '    pass',
        'def generic_comp(s=[x for x in %s]):' % r(v['default_comp']), '    pass',
        'CALLBACK = lambda: %s' % r(v['const_lambda']),
    ]) + '\n'
    stem = v['stem']
    uri = v['rst_link_uri'].replace('\\', '\\\\').replace(' ', '\\ ')
    rst_doc = 'Module with reST markup.\n\n.. image:: pic.png\n   :alt: %s\n\nSee `the link text <http://example.org/%s>`_ for more.\n' % (v['rst_image_alt'], uri)
    epy_doc = 'Module with epytext markup, see U{the link text<http://example.org/%s>} for more.\n\nAlso L{%s <pkg.mod.C>} and U{%s <http://example.org/y>}.\n' % (
        v['epy_link_uri'], v['epy_xref_label'], v['epy_url_label'])
    files = {'pkg/attrs_rst.py': '__docformat__ = "restructuredtext"\n__doc__ = %s\n' % r(rst_doc), 'pkg/attrs_epy.py': '__docformat__ = "epytext"\n__doc__ = %s\n' % r(epy_doc)}
    files.update({'pkg/__init__.py': '"""pkg"""\n', 'pkg/mod.py': src, 'pkg/%s.py' % stem: STEM_SRC})
    args = ['--docformat=' + fmt, '--project-name=' + v['project_name'], '--project-url=' + v['project_url'], '--project-version=' + v['project_version'],
            '--html-viewsource-base=' + v['viewsource_base'], '--project-base-dir=.',
            # escaped characters change the displayed length; no wrapping keeps the layout independent of it
            '--pyval-repr-linelen=0', '--pyval-repr-maxlines=0']
    return files, ['pkg'], args


def marker_context(pg: crawl.Page) -> List[str]:
    """Where the canary marker occurs outside text nodes and safe attribute values."""
    bad: List[str] = []
    if pg.dom is None:
        return bad

    def rec(el: Any) -> None:
        if MARK_L in el.tagName or MARK_R in el.tagName:
            bad.append('element name %r' % el.tagName)
        if el.attributes:
            for k in el.attributes.keys():
                if MARK_L in k or MARK_R in k:
                    bad.append('attribute name %r of <%s>' % (k, el.tagName))
                val = el.getAttribute(k)
                if (MARK_L in val or MARK_R in val) and k not in SAFE_ATTRS:
                    bad.append('value of attribute %s of <%s>: %r' % (k, el.tagName, val[:80]))
                if (MARK_L in val) and k in ('href', 'src') and val.strip().lower().startswith('javascript:'):
                    bad.append('javascript: URL in %s of <%s>' % (k, el.tagName))
        for c in el.childNodes:
            if c.nodeType == c.ELEMENT_NODE:
                rec(c)
            elif c.nodeType in (c.COMMENT_NODE, c.PROCESSING_INSTRUCTION_NODE, c.CDATA_SECTION_NODE):
                data = getattr(c, 'data', '')
                if MARK_L in data or MARK_R in data:
                    bad.append('%s node containing the canary' % type(c).__name__)
    rec(pg.dom.documentElement)
    return bad


def check_canaries(case: Dict[str, Any]) -> Tuple[List[Tuple[str, str]], Dict[str, Any]]:
    fmt = case['fmt']
    canary: Dict[str, str] = case['canaries']       # slot -> payload (may be absent => control)
    values: Dict[str, str] = {}
    control: Dict[str, str] = {}
    for slot in ALL_SLOTS:
        payload = canary.get(slot)
        ctl = MARK_L + 'x' * len(payload or 'xx') + MARK_R
        control[slot] = ctl if slot != STEM_SLOT else 'stem' + ctl
        if slot in UNPARSABLE_SLOTS:
            # string annotations are parsed as Python: keep canary and control equally unparsable, so that both
            # are shown as the quoted string (the parsable route is covered by the Literal slot and by C14)
            ctl = '?' + ctl
        control[slot] = ctl if slot != STEM_SLOT else 'stem' + ctl
        if payload is None:
            values[slot] = control[slot]
        elif slot in UNPARSABLE_SLOTS:
            values[slot] = '?' + MARK_L + payload + MARK_R
        else:
            values[slot] = (MARK_L + payload + MARK_R) if slot != STEM_SLOT else ('stem' + MARK_L + payload + MARK_R)
    theme = case.get('theme')
    extra = ['--theme=' + theme] if theme else []
    info: Dict[str, Any] = {'pages_with_canary': 0}
    out: List[Tuple[str, str]] = []
    f1, roots, a1 = build_project(values, fmt)
    f0, _r, a0 = build_project(control, fmt)
    with pydoctor_run(f1, roots, a1 + extra, timeout=120) as r1:
        if r1.exc is not None or r1.timeout or r1.code not in (0, 2, 3):
            info['crashed'] = '%r %s' % (r1.exc, r1.stderr[-200:])
            return [], info
        pages1 = crawl.read_dir(r1.out)
    with pydoctor_run(f0, roots, a0 + extra, timeout=120) as r0:
        if r0.exc is not None or r0.timeout:
            info['crashed'] = 'control run failed'
            return [], info
        pages0 = crawl.read_dir(r0.out)
    slots = sorted(canary)
    desc = 'docformat %s canaries %s' % (fmt, {k: canary[k] for k in slots})
    vocab0 = set()
    for pg in pages0.values():
        vocab0 |= pg.vocab
    # the package name of Version() is validated as an identifier: an invalid one legitimately removes the whole notice
    stem_changed = STEM_SLOT in canary or 'deprecated_ver' in canary
    for name, pg in pages1.items():
        if pg.error:
            out.append(('not-well-formed:' + _which(slots), '%s: page %s is %s' % (desc, name, pg.error)))
            continue
        new = sorted(x for x in pg.vocab if x not in vocab0)
        if new:
            out.append(('new-markup:' + _which(slots), '%s: page %s has elements/attributes that the control run never produces: %s' % (desc, name, new[:6])))
        bad = marker_context(pg)
        if bad:
            out.append(('canary-outside-text:' + _which(slots), '%s: page %s: %s' % (desc, name, bad[:3])))
        if any(MARK_L in crawl._text(pg.dom.documentElement) for _ in (0,)):
            info['pages_with_canary'] += 1
        if not stem_changed and name in pages0 and pages0[name].dom is not None:
            if pg.seq != pages0[name].seq:
                a, b = pg.seq, pages0[name].seq
                i = 0
                while i < min(len(a), len(b)) and a[i] == b[i]:
                    i += 1
                out.append(('structure-changed:' + _which(slots), '%s: page %s differs structurally from the control run at element #%d: %s vs control %s' % (
                    desc, name, i, a[i:i + 3], b[i:i + 3])))
    seen = set()
    res = []
    for sig, msg in out:
        if sig not in seen:
            seen.add(sig)
            res.append((sig, msg))
    return res, info


def _which(slots: List[str]) -> str:
    return slots[0] if len(slots) == 1 else 'several'


def check_tree_wellformed(case: Dict[str, Any]) -> Tuple[List[Tuple[str, str]], Dict[str, Any]]:
    from .c01 import _dec
    files = {k: _dec(v) for k, v in case['files'].items()}
    info: Dict[str, Any] = {'pages': 0}
    with pydoctor_run(files, case['roots'], case['args'], timeout=120) as r:
        if r.exc is not None or r.timeout or r.code not in (0, 2, 3):
            info['crashed'] = True
            return [], info
        pages = crawl.read_dir(r.out)
    info['pages'] = len(pages)
    out = []
    for name, pg in pages.items():
        if pg.error:
            out.append(('not-well-formed:tree', 'page %s is %s' % (name, pg.error)))
            break
    return out, info


def st_case():
    from hypothesis import strategies as st

    def payload(pieces: List[str]):
        return st.lists(st.sampled_from(pieces), min_size=1, max_size=4).map(''.join)

    @st.composite
    def c(draw):
        fmt = draw(st.sampled_from(['epytext', 'restructuredtext', 'google', 'numpy', 'plaintext']))
        nslots = draw(st.sampled_from([1, 1, 1, 2, 4]))
        slots = draw(st.lists(st.sampled_from(ALL_SLOTS), min_size=nslots, max_size=nslots, unique=True))
        canaries = {}
        for s in slots:
            if s in DOC_SLOTS:
                pieces = [p for p in HTML_PIECES if p not in ('\x0c', ' ', 'javascript:')]  # form feed / blanks break lines or words; a URI is a standalone hyperlink in reST (markup, not text)
                if fmt == 'epytext':
                    pieces = [p for p in pieces if '{' not in p and '}' not in p]
                canaries[s] = draw(payload(pieces))
            elif s in ATTR_SLOTS:
                bad = {'rst_image_alt': '', 'rst_link_uri': '<>', 'epy_link_uri': '<>'}[s]
                canaries[s] = draw(payload([p for p in ATTR_PIECES if not any(ch in p for ch in bad)]))
            elif s in LABEL_SLOTS:
                canaries[s] = draw(payload([p for p in HTML_PIECES if '{' not in p and '}' not in p and p not in ('\x0c', '\x01', '\x1b')]))
            elif s in GENERIC_SLOTS:
                canaries[s] = draw(st.lists(st.sampled_from([p for p in HTML_PIECES + MARKUP_PIECES if len(p) < 12 and not any(ch.isspace() or ch in LINE_BREAKERS for ch in p)]), min_size=1, max_size=3).map(''.join))
            elif s == STEM_SLOT:
                canaries[s] = draw(payload(['<', '>', '&', '"', "'", '&lt;', '<b>', ' ', '%', '#', '+', ';', '=', 'a', '`', '``', '*', '**', '_', '`_', '|', '<javascript:alert(1)>', '\\']))
            elif s in OPT_SLOTS:
                canaries[s] = draw(payload([p for p in HTML_PIECES + ['`', '*', '{', '}'] if p not in ('\x01', '\x1b', '\x0c')]))
            elif s == 'deprecated_repl':
                canaries[s] = draw(payload([p for p in HTML_PIECES + MARKUP_PIECES if p != '\x0c']))
            else:
                canaries[s] = draw(payload(HTML_PIECES + MARKUP_PIECES))
        theme = draw(st.sampled_from([None, None, 'readthedocs', 'base']))
        return {'kind': 'canary', 'fmt': fmt, 'canaries': canaries, 'theme': theme}
    return c()


def plan(tier: str, seed: int, scale: float = 1.0) -> List[Any]:
    n = ncpu()
    total = int((400 if tier == 'quick' else 5000) * scale)
    items: List[Any] = []
    for i in range(n):
        items.append({'kind': 'canary', 'n': max(1, total // n), 'seed': seed * 1000 + i})
    for i in range(n):
        items.append({'kind': 'trees', 'n': max(1, total // (2 * n)), 'seed': seed * 1000 + 100 + i})
    for i in range(n):
        items.append({'kind': 'matrix', 'part': i, 'nparts': n})
    return items


def work(item: Dict[str, Any]) -> Acc:
    acc = Acc()
    if item['kind'] == 'canary':
        def body(c):
            d, info = check_canaries(c)
            if info.get('crashed'):
                acc.inconclusive += 1
                acc.notes.setdefault('crash_example', info['crashed'][:300])
                return
            meta = any(any(ch in p for ch in '<>&"\'') for p in c['canaries'].values())
            acc.case(key=c, nontrivial=meta and info['pages_with_canary'] >= 1, sample=c,
                     classes=['fmt-' + c['fmt']] + ['slot-' + s for s in c['canaries']])
            judge(ID, acc, c, d)
        hyp_run(acc, st_case(), body, item['n'], item['seed'])
    elif item['kind'] == 'matrix':
        # every slot x every whole attack payload, deterministically
        idx = 0
        fmts = ['epytext', 'restructuredtext', 'google', 'numpy', 'plaintext']
        for slot in ALL_SLOTS:
            attacks = HTML_ATTACKS + (STEM_MARKUP if slot == STEM_SLOT else []) if slot in DOC_SLOTS or slot == STEM_SLOT or slot in LABEL_SLOTS else (ATTR_ATTACKS if slot in ATTR_SLOTS else HTML_ATTACKS + MARKUP_ATTACKS)
            for ai, payload in enumerate(attacks):
                if slot in GENERIC_SLOTS and (len(payload) > 36 or any(ch.isspace() or ch in LINE_BREAKERS for ch in payload)):
                    continue
                if slot in ('rst_link_uri', 'epy_link_uri') and ('<' in payload or '>' in payload):
                    continue  # angle brackets delimit the target in the markup itself
                if slot == STEM_SLOT and ('/' in payload or '\x00' in payload):
                    continue
                if slot in DOC_SLOTS and ('\x0c' in payload or ' ' in payload.strip() and False):
                    continue
                idx += 1
                if idx % item['nparts'] != item['part']:
                    continue
                c = {'kind': 'canary', 'fmt': fmts[(idx + ai) % 5], 'canaries': {slot: payload}, 'theme': None}
                if slot in DOC_SLOTS and c['fmt'] == 'epytext' and ('{' in payload or '}' in payload):
                    continue
                if slot in DOC_SLOTS and c['fmt'] in ('restructuredtext', 'google', 'numpy') and 'javascript:' in payload:
                    continue  # a URI in a reST docstring is a standalone hyperlink: markup, not text
                d, info = check_canaries(c)
                if info.get('crashed'):
                    acc.inconclusive += 1
                    continue
                acc.case(nontrivial=True, distinct_by_construction=True, classes=['matrix', 'slot-' + slot], sample=(c if idx % 37 == 0 else None))
                if d:
                    try:
                        judge(ID, acc, c, d)
                    except Violation as v:
                        acc.violations.append(v.as_dict())
                        return acc
        acc.exhaustive_parts.append('every slot x every whole attack payload')
    else:
        from .c01 import st_tree

        def body2(c):
            d, info = check_tree_wellformed(c)
            if info.get('crashed'):
                acc.inconclusive += 1
                return
            acc.case(key=(c['files'], c['args']), nontrivial=info['pages'] >= 8, classes=['grammar-tree'],
                     sample={'files': {k: trunc(v, 80) for k, v in list(c['files'].items())[:4]}, 'pages': info['pages']})
            judge(ID, acc, dict(c, kind='tree'), d)
        hyp_run(acc, st_tree(clean=True), body2, item['n'], item['seed'])
    return acc


def replay(case: Dict[str, Any]) -> List[Tuple[str, str]]:
    if case.get('kind') == 'tree':
        return check_tree_wellformed(case)[0]
    return check_canaries(case)[0]
