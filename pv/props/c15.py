"""C15 - a displayed value or expression means the same as the source expression.

Oracle O-EXPR (pv/oracle/exprnorm.py): the text pydoctor shows (text content of the colourised value, cross-checked
between the docutils tree and the flattened stan) is parsed back with Python's own parser and compared with the source
expression.  Wrapped output: removing each wrap marker + newline restores an equivalent text.  Truncated output: visibly
marked, and a prefix of the unlimited rendering; output that is shorter than the unlimited rendering is never flagged
complete.
"""
from __future__ import annotations

import ast
import html
import re
from typing import Any, Dict, Iterable, List, Optional, Tuple

from ..core import Acc, Violation, hyp_run, judge, ncpu, trunc
from ..gen import exprs
from ..oracle import exprnorm

ID = "C15"
RULE = ("exhaustive: every form (unary/binary/bool/compare/ifexp/lambda/call/subscript/attribute/containers/starred/"
        "comprehensions/await/yield/walrus/f-string) over leaves {a, 1, 's'} at depth 1, every form with every depth-1 tree in "
        "every child slot (depth 2; quick: reduced leaves, thorough: all leaves), every chain of three operators out of 29 with "
        "the inner operation in every child position, each rendered inline and as a constant value; literal leaves x all "
        "linelen/maxlines settings; random trees up to depth 4 x random settings. Distinct by construction (enumerations) or by "
        "hash of (text, settings); non-trivial when the expression has >=1 operator/call/container node. In-situ: generated "
        "expressions placed at every display site of a real module page (constant value, default, parameter/return/variable "
        "annotation, decorator argument, base-class subscript, type alias) and read back from the rendered signature/table. "
        "Regex: generated re.compile() patterns (groups, named groups, back-references, alternations, classes, repeats, inline "
        "and scoped flags, str and bytes, raw and cooked) whose displayed pattern must parse to the same sre tree; non-trivial "
        "when the pattern has a metacharacter.")
ASSUMPTIONS = [
    "documented spelling changes only: set literals shown as set([...]), quote style, numeric formatting, redundant parentheses",
    "the wrap marker is U+21B5 followed by a newline; the truncation marker is '...' at the very end",
]
ALL_EXHAUSTIVE = False
WRAP = chr(8629)
SETTINGS = [(ll, ml) for ll in (0, 5, 20, 80) for ml in (0, 1, 3, 7)]

_TAG = re.compile(r'<[^>]*>')


class _Linker:
    def link_to(self, target: str, label: Any) -> Any:
        from twisted.web.template import tags
        return tags.a(label, href='#')

    def link_xref(self, target: str, label: Any, lineno: int) -> Any:
        from twisted.web.template import tags
        return tags.a(label, href='#')

    def switch_context(self, ob: Any) -> Any:
        import contextlib
        return contextlib.nullcontext()


def render(text: str, mode: Any) -> Tuple[str, bool, List[str], Optional[str]]:
    """mode: 'inline' or (linelen, maxlines).  Returns (shown, is_complete, warnings, cross-check problem)."""
    from pydoctor.epydoc.markup._pyval_repr import colorize_inline_pyval, colorize_pyval
    from pydoctor.node2stan import gettext
    from pydoctor.stanutils import flatten
    tree = ast.parse(text, mode='eval').body
    if mode == 'inline':
        doc = colorize_inline_pyval(tree)
    else:
        doc = colorize_pyval(tree, linelen=mode[0], maxlines=mode[1])
    shown = ''.join(gettext(doc.to_node()))
    problem = None
    try:
        flat = flatten(doc.to_stan(_Linker()))
        stan_text = html.unescape(_TAG.sub('', flat))
        if stan_text != shown:
            # html2stan turns control characters into visible escapes; compare modulo that
            if _ctrl_escape(shown) != stan_text:
                problem = 'text of the flattened stan %r differs from the text of the node tree %r' % (stan_text[:200], shown[:200])
    except Exception as e:
        problem = 'to_stan/flatten raised %s: %s' % (type(e).__name__, e)
    return shown, doc.is_complete, list(doc.warnings), problem


def _ctrl_escape(s: str) -> str:
    return ''.join(('\\x%02x' % ord(c)) if (ord(c) < 32 and c not in '\r\n\t') else c for c in s)


def _is_interesting(tree: ast.AST) -> bool:
    return any(isinstance(n, (ast.UnaryOp, ast.BinOp, ast.BoolOp, ast.Compare, ast.Call, ast.Subscript, ast.IfExp, ast.Lambda,
                              ast.List, ast.Tuple, ast.Set, ast.Dict, ast.Starred, ast.ListComp, ast.JoinedStr)) for n in ast.walk(tree))


def check_text(text: str, mode: Any) -> List[Tuple[str, str]]:
    """All discrepancies of one expression under one setting, with structural signatures."""
    src = ast.parse(text, mode='eval').body
    shown, complete, warns, problem = render(text, mode)
    out: List[Tuple[str, str]] = []
    desc = 'expr %s mode %s shown %r' % (trunc(text, 200), mode, trunc(shown, 300))
    if problem:
        has_nbsp = any(isinstance(n, ast.Constant) and isinstance(n.value, str) and '\xa0' in n.value for n in ast.walk(src))
        has_nonchar = any(isinstance(n, ast.Constant) and isinstance(n.value, str) and ('\ufffe' in n.value or '\uffff' in n.value) for n in ast.walk(src))
        out.append(('stan-fails:nbsp-in-string' if (has_nbsp and 'undefined entity' in problem) else
                    'stan-fails:xml-noncharacter-in-string' if (has_nonchar and 'not well-formed' in problem) else 'stan-vs-node', '%s: %s' % (desc, problem)))
    if complete:
        unwrapped = shown.replace(WRAP + '\n', '')
        why = exprnorm.same(src, unwrapped)
        if why:
            out.append((classify(text, mode), '%s: %s' % (desc, why)))
        if mode != 'inline' and mode[1] != 0:
            ref, refc, _w, _p = render(text, (mode[0], 0))
            if refc and ref != shown:
                out.append(('silently-shortened', '%s: flagged complete but differs from the unlimited rendering %r' % (desc, trunc(ref, 300))))
    else:
        if not shown.endswith('...'):
            out.append(('truncation-not-marked', '%s: is_complete is False but the text does not end with the ellipsis marker' % desc))
        else:
            body = shown[:-3]
            # Nothing further is asserted about the visible prefix: the colouriser lays a value out differently
            # when it is cut during its one-line attempt (wrap marker, single quotes) than when it is complete
            # (line breaks, triple quotes), so a prefix relation with the unlimited rendering does not hold by design.
    return out


def _fails(text: str, mode: Any) -> bool:
    try:
        src = ast.parse(text, mode='eval').body
        shown, complete, _w, _p = render(text, mode)
    except Exception:
        return False
    if not complete:
        return False
    return exprnorm.same(src, shown.replace(WRAP + '\n', '')) is not None


def _expr_children(node: ast.AST) -> Iterable[ast.AST]:
    for c in ast.iter_child_nodes(node):
        if isinstance(c, ast.Starred):
            yield c.value
        elif isinstance(c, ast.expr):
            yield c
        elif isinstance(c, (ast.keyword, ast.comprehension, ast.arguments, ast.arg)):
            yield from _expr_children(c)


def _label(n: ast.AST) -> str:
    if isinstance(n, (ast.Name, ast.Constant)):
        if isinstance(n, ast.Constant):
            return 'Const.' + type(n.value).__name__
        return 'Name'
    if isinstance(n, (ast.UnaryOp, ast.BinOp, ast.BoolOp)):
        return type(n).__name__ + '.' + type(n.op).__name__
    if isinstance(n, ast.Compare):
        return 'Compare'
    if isinstance(n, ast.Tuple):
        return 'Tuple%d' % min(len(n.elts), 2)
    return type(n).__name__


def _nonfinite(tree: ast.AST) -> bool:
    for n in ast.walk(tree):
        if isinstance(n, ast.Constant) and isinstance(n.value, (float, complex)):
            v = n.value
            parts = [v] if isinstance(v, float) else [v.real, v.imag]
            if any(p != p or p in (float('inf'), float('-inf')) for p in parts):
                return True
    return False


_EXPLICIT = (ast.Constant, ast.UnaryOp, ast.BinOp, ast.BoolOp, ast.List, ast.Tuple, ast.Set, ast.Dict, ast.Name, ast.Call,
             ast.Starred)


def _delegated(node: ast.AST) -> bool:
    """True when PyvalColorizer renders (part of) this node through astor.to_source."""
    if isinstance(node, ast.Subscript):
        sl = node.slice
        return isinstance(sl, ast.Slice) or (isinstance(sl, ast.Tuple) and any(isinstance(e, ast.Slice) for e in sl.elts))
    if isinstance(node, ast.Attribute):
        v: ast.AST = node
        while isinstance(v, ast.Attribute):
            v = v.value
        return not isinstance(v, ast.Name)
    return not isinstance(node, _EXPLICIT)


def classify(text: str, mode: Any) -> str:
    """Signature = a predicate over the input: kind of the smallest failing subexpression, with a few named
    root-cause shapes first."""
    try:
        root = ast.parse(text, mode='eval').body
        m0 = mode if mode == 'inline' else (0, 0)

        def deepest(n: ast.AST) -> Optional[ast.AST]:
            for c in _expr_children(n):
                r = deepest(c)
                if r is not None:
                    return r
            try:
                t = ast.unparse(n)
            except Exception:
                return None
            if isinstance(n, ast.expr) and not isinstance(n, ast.Slice) and exprs.valid(t) and _fails(t, m0):
                return n
            return None
        node = deepest(root) or root
        if _nonfinite(node):
            # does the discrepancy vanish when the overflowing literals are replaced by finite ones?
            class _R(ast.NodeTransformer):
                def visit_Constant(self, n: ast.Constant) -> Any:
                    if isinstance(n.value, (float, complex)) and _nonfinite(n):
                        return ast.Constant(value=1.5 if isinstance(n.value, float) else 1.5j)
                    return n
            t2 = ast.unparse(_R().visit(ast.parse(ast.unparse(node), mode='eval').body))
            if not _fails(t2, mode if mode == 'inline' else (0, 0)):
                return 'expr:non-finite-float-literal'
        if isinstance(node, ast.Tuple) and len(node.elts) == 1:
            return 'expr:one-element-tuple'
        if _delegated(node):
            # pydoctor hands this node to astor's code generator: is astor's own output already wrong?
            try:
                import astor
                import copy
                a_src = astor.to_source(exprnorm.clone(node)).strip()
                if exprnorm.same(node, a_src) is not None:
                    return 'expr:astor-codegen'
            except Exception:
                return 'expr:astor-codegen'
        return 'expr:%s' % _label(node).split('.')[0]
    except Exception:  # classification must never hide the discrepancy
        return 'expr:unclassified'


# ---------------------------------------------------------------- plan / work / replay

def plan(tier: str, seed: int, scale: float = 1.0) -> List[Any]:
    n = ncpu()
    items: List[Any] = []
    nparts = 2 * n
    for part in range(nparts):
        items.append({'kind': 'depth', 'reduced': tier == 'quick', 'part': part, 'nparts': nparts})
    for part in range(nparts):
        items.append({'kind': 'chains', 'part': part, 'nparts': nparts})
    items.append({'kind': 'literals'})
    rn = int((6000 if tier == 'quick' else 60000) * scale)
    for i in range(n):
        items.append({'kind': 'random', 'n': max(1, rn // n), 'seed': seed * 1000 + i})
    sn = int((1200 if tier == 'quick' else 20000) * scale)
    for i in range(n):
        items.append({'kind': 'sites', 'n': max(1, sn // n), 'seed': seed * 1000 + 200 + i})
    gn = int((16000 if tier == 'quick' else 300000) * scale)
    for i in range(n):
        items.append({'kind': 'regex', 'n': max(1, gn // n), 'seed': seed * 1000 + 300 + i})
    if tier == 'thorough':
        # coverage-guided stage: libFuzzer mutates Python source text, the oracle runs inside the target
        for i in range(n):
            items.append({'kind': 'atheris', 'seconds': int(240 * scale), 'seed': seed * 1000 + 400 + i})
    return items


def work(item: Dict[str, Any]) -> Acc:
    if item['kind'] == 'atheris':
        from ..core import run_fuzz_item
        return run_fuzz_item(ID, 'c15', item['seconds'], item['seed'])
    acc = Acc()
    from .. import findings
    seen_sigs: Dict[str, Dict[str, Any]] = {}

    def run(text: str, mode: Any, label: str, distinct: bool) -> None:
        tree = ast.parse(text, mode='eval').body
        d = check_text(text, mode)
        mode_j = mode if mode == 'inline' else list(mode)
        acc.case(key=(text, mode_j), nontrivial=_is_interesting(tree), distinct_by_construction=distinct,
                 sample=({'expr': text, 'mode': mode_j} if acc.evals % 1009 == 0 else None), classes=[label.split('[')[0].split('/')[0][:12]] if False else [])
        for sig, msg in d:
            if findings.is_open(ID, sig):
                acc.excluded[sig] += 1
            elif sig not in seen_sigs or len(text) < len(seen_sigs[sig]['case']['text']):
                seen_sigs[sig] = {'sig': sig, 'msg': msg, 'case': {'text': text, 'mode': mode_j}}

    kind = item['kind']
    if kind == 'depth':
        idx = 0
        gens = [exprs.depth1(), exprs.depth2(item['reduced'])]
        for g in gens:
            for label, text in g:
                idx += 1
                if idx % item['nparts'] != item['part']:
                    continue
                run(text, 'inline', label, True)
                run(text, (80, 7), label, True)
        acc.classes['depth-trees'] += acc.evals
        acc.exhaustive_parts.append('depth<=2 trees (%s leaves)' % ('reduced' if item['reduced'] else 'all'))
    elif kind == 'chains':
        idx = 0
        for label, text in exprs.chains3():
            idx += 1
            if idx % item['nparts'] != item['part']:
                continue
            if not exprs.valid(text):
                continue
            run(text, 'inline', label, True)
        acc.classes['operator-chains'] += acc.evals
        acc.exhaustive_parts.append('operator chains of 3 out of 29 operators, every child position')
    elif kind == 'literals':
        for lit in exprs.LITERALS:
            for wrap in ('%s', '[%s, %s]', '-%s', 'f(%s)', '{%s: %s}'):
                text = wrap.replace('%s', lit)
                if not exprs.valid(text):
                    continue
                run(text, 'inline', 'literal', True)
                for m in SETTINGS:
                    run(text, m, 'literal', True)
        acc.classes['literals-x-settings'] += acc.evals
        acc.exhaustive_parts.append('literal leaves x 16 linelen/maxlines settings + inline')
    elif kind == 'sites':
        from hypothesis import strategies as st

        def body_s(es):
            good = []
            # an annotation (or alias value) may be written entirely as a string: the expression it holds is shown unquoted
            for e in es:
                try:
                    if not check_text(e, 'inline') and not check_text(e, (0, 0)) and render(e, 'inline')[1]:
                        good.append(e)
                except Exception:
                    pass
            if not good:
                return
            # an annotation (or alias value) may be written entirely as a string: the expression it holds is shown unquoted
            for e in list(good[:2]):
                top = ast.parse(e, mode='eval').body
                if '\\' not in e and not isinstance(top, (ast.Starred, ast.JoinedStr, ast.Constant)) and not any(isinstance(x, (ast.JoinedStr, ast.Yield, ast.YieldFrom, ast.Await, ast.NamedExpr)) for x in ast.walk(top)):
                    good.append(repr(e))
            d, n = check_sites(good)
            acc.case(key=good, nontrivial=True, sample=({'expressions': good, 'sites': SITES} if acc.evals % 50 == 0 else None), classes=['in-situ'])
            acc.notes['site_renderings_compared'] = acc.notes.get('site_renderings_compared', 0) + n
            judge(ID, acc, {'kind': 'sites', 'exprs': good}, d)
        hyp_run(acc, st.lists(st.one_of(exprs.st_expr(3), exprs.st_expr(3), st.sampled_from(ANN_EXPRS)), min_size=1, max_size=6), body_s, item['n'], item['seed'])
        return acc
    elif kind == 'regex':
        def body_r(c):
            pat, flags, raw, as_bytes = c
            d, used = check_regex(pat, flags, raw, as_bytes)
            if not used:
                return
            acc.case(key=c, nontrivial=any(ch in pat for ch in '()[]{}*+?|\\'), sample=({'pattern': pat, 'flags': flags, 'bytes': as_bytes} if acc.evals % 500 == 0 else None), classes=['regex'])
            judge(ID, acc, {'kind': 'regex', 'pat': pat, 'flags': flags, 'raw': raw, 'bytes': as_bytes}, d)
        hyp_run(acc, st_regex(), body_r, item['n'], item['seed'])
        return acc
    else:
        from hypothesis import strategies as st
        strat = st.tuples(exprs.st_expr(), st.one_of(st.just('inline'), st.sampled_from(SETTINGS)))

        def body(c):
            text, mode = c
            run(text, mode, 'random', False)
        hyp_run(acc, strat, body, item['n'], item['seed'], shrink=False)
        acc.classes['random'] += acc.evals
    for sig, v in seen_sigs.items():
        acc.violations.append(v)
    return acc


def replay(case: Dict[str, Any]) -> List[Tuple[str, str]]:
    if case.get('kind') == 'sites':
        return check_sites(case['exprs'])[0]
    if case.get('kind') == 'regex':
        return check_regex(case['pat'], case['flags'], case['raw'], case['bytes'])[0]
    mode = case['mode'] if case['mode'] == 'inline' else tuple(case['mode'])
    return check_text(case['text'], mode)


# ====================================================================================================================
# in-situ: the same oracle at every place where pydoctor shows an expression (not only colorize_pyval itself)
# ====================================================================================================================

# annotation-flavoured expressions: forward references (strings) are shown unquoted, the arguments of Literal[...] are values and
# stay strings - however the typing module is spelled
ANN_EXPRS = ["Literal['r', 'w']", "typing.Literal['int', 'str']", 't.Literal["r", "w"]', "te.Literal['None', 'x']", "typing_extensions.Literal['a']", "t.Optional['int']", "List['G']", "t.Dict[str, 'int']",
             "'int'", "'List[int]'", "t.Union['a', t.Literal['b', 1]]", "Optional[Literal['x']]", "t.List[t.Literal['a.b', 'c']]", "Dict['str', Literal[1, 'one']]", "'t.Literal[\"q\"]'",
             # annotations of which only a part is written as a string: the parsed part takes the place of the string, with the grouping that implies
             "'-A' ** 2", "'A + B' * 2", "('A | B')[int]", "'A or B' [0]", "List['-A' ** 2]", "'A if B else C' | None", "Dict[str, 'A + B' * 2]", "-'A + B'", "'A, B' [0]", "not 'A or B'",
             "'A + B' * 'C - D'", "'lambda: 1' (2)", "'A < B' < C", "('A' ** 'B') ** 'C - D'", "t.Optional['A | B'] | 'C and D'", "'A or B'.attr", "'A and B' or 'C or D'"]
SITES = ['constant', 'default', 'annotation-param', 'annotation-return', 'annotation-var', 'decorator', 'base-subscript', 'alias']


def site_module(exprs_: List[str]) -> str:
    lines = ['import re', 'import typing', 'import typing as t', 'import typing_extensions as te', 'from typing import Union, Generic, TypeVar, Literal, List, Optional, Dict', 'T = TypeVar("T")', 'def deco(*a, **k):', '    return lambda f: f', 'class G(Generic[T]):', '    pass']
    for i, e in enumerate(exprs_):
        lines += ['CONST_%d = %s' % (i, e),
                  'def fd_%d(p=%s):' % (i, e), '    pass',
                  'def fa_%d(p: %s) -> %s:' % (i, e, e), '    pass',
                  'va_%d: %s = None' % (i, e),
                  '@deco(%s, k=%s)' % (e, e), 'def fdeco_%d():' % i, '    pass',
                  'class KB_%d(G[%s]):' % (i, e), '    pass',
                  'Alias_%d = Union[int, %s]' % (i, e)]
    return '\n'.join(lines) + '\n'


def _flat_text(x: Any) -> str:
    from pydoctor.stanutils import flatten
    return html.unescape(_TAG.sub('', flatten(x)))


def check_sites(exprs_: List[str]) -> Tuple[List[Tuple[str, str]], int]:
    """exprs_: expression texts that the colouriser is known to display faithfully and completely (pure check)."""
    from pydoctor import epydoc2stan, model
    from pydoctor.templatewriter import pages
    from ..sysutil import build
    s = build([('m', None, False, site_module(exprs_))], args=['--pyval-repr-linelen=0', '--pyval-repr-maxlines=0'])
    out: List[Tuple[str, str]] = []
    n = 0

    def unstr(text: str) -> Optional[ast.AST]:
        # annotations and type aliases: string constants are forward references, shown unquoted (documented)
        from .c14 import _Unstring
        import copy
        try:
            return _Unstring().visit(exprnorm.clone(ast.parse(text, mode='eval').body))
        except (SyntaxError, ValueError):
            return None

    def cmp(site: str, src_text: str, shown: str, i: int) -> None:
        nonlocal n
        n += 1
        if site in ('annotation-var', 'alias'):
            src_tree = unstr(src_text)
            if src_tree is None or any(isinstance(x, ast.JoinedStr) for x in ast.walk(ast.parse(src_text, mode='eval'))):
                return
        else:
            src_tree = ast.parse(src_text, mode='eval').body
        why = exprnorm.same(src_tree, shown.replace(WRAP + '\n', ''))
        if why and shown.rstrip().endswith('...') and not exprs.valid(shown.replace(WRAP + '\n', '')):
            return  # cut to the configured length and marked with the ellipsis: allowed
        if why:
            out.append(('site:' + site, 'expression %s at site %s is displayed as %r: %s' % (trunc(exprs_[i], 200), site, trunc(shown, 300), why)))
    for i, e in enumerate(exprs_):
        try:
            c = s.allobjects.get('m.CONST_%d' % i)
            if c is not None:  # a bare (dotted) name on the right-hand side is an alias, not a constant
                row = _flat_text(epydoc2stan.format_constant_value(c))
                shown = row[len('Value'):] if row.startswith('Value') else row
                # (a value that is a type expression makes the variable a type alias: forward references are shown unquoted)
                cmp('alias' if c.kind is model.DocumentableKind.TYPE_ALIAS else 'constant', e, shown.strip('\n'), i)
            fd = s.allobjects['m.fd_%d' % i]
            sig = _flat_text(pages.format_signature(fd))
            d = ast.parse('def f%s: pass' % sig).body[0].args.defaults[0]
            cmp('default', e, ast.unparse(d) if False else sig[len('(p='):-1], i)
            ue = unstr(e)
            if any(isinstance(x, ast.JoinedStr) for x in ast.walk(ast.parse(e, mode='eval'))):
                ue = None  # an f-string is not an annotation expression
            if ue is not None:
                fa = s.allobjects['m.fa_%d' % i]
                sig = _flat_text(pages.format_signature(fa))
                try:
                    fdef = ast.parse('def f%s: pass' % sig).body[0]
                except SyntaxError:
                    if '...' not in sig:
                        raise
                    fdef = None  # cut to the length limit and marked with the ellipsis: allowed
                if fdef is not None:
                    if exprnorm.norm_dump(fdef.args.args[0].annotation) != exprnorm.norm_dump(ue):
                        out.append(('site:annotation-param', 'annotation %s is displayed as %r' % (trunc(e, 200), sig)))
                    if not (isinstance(ue, ast.Constant) and ue.value is None) and exprnorm.norm_dump(fdef.returns) != exprnorm.norm_dump(ue):
                        out.append(('site:annotation-return', 'return annotation %s is displayed as %r' % (trunc(e, 200), sig)))
                    n += 2
            va = s.allobjects['m.va_%d' % i]
            t = epydoc2stan.type2stan(va)
            cmp('annotation-var', e, _flat_text(t), i)
            fdec = s.allobjects['m.fdeco_%d' % i]
            dec = ''.join(_flat_text(part) if not isinstance(part, str) else part for tup in pages.format_decorators(fdec) for part in tup)
            cmp('decorator', 'deco(%s, k=%s)' % (e, e), dec.lstrip('@').strip(), i)
            kb = s.allobjects['m.KB_%d' % i]
            cs = _flat_text(pages.format_class_signature(kb))
            cmp('base-subscript', 'G[%s]' % e, cs[1:-1], i)
            al = s.allobjects['m.Alias_%d' % i]
            if al.kind is model.DocumentableKind.TYPE_ALIAS:
                row = _flat_text(epydoc2stan.format_constant_value(al))
                cmp('alias', 'Union[int, %s]' % e, row[len('Value'):].strip('\n'), i)
        except Exception as ex:
            import traceback
            out.append(('site:raises', 'rendering the sites of %s raised %s: %s\n%s' % (trunc(e, 200), type(ex).__name__, ex, traceback.format_exc()[-500:])))
    seen = set()
    res = []
    for sig, msg in out:
        if sig not in seen:
            seen.add(sig)
            res.append((sig, msg))
    return res, n


# ====================================================================================================================
# regular expressions: the displayed pattern is the same regular expression
# ====================================================================================================================

RE_ATOMS = ['a', 'b', 'Z', '0', ' ', '.', r'\d', r'\w', r'\s', r'\D', r'\W', r'\S', r'\b', r'\B', r'\A', r'\Z', '^', '$', r'\.', r'\\', r'\n', r'\t', r'\x41', r'é', r'\(', r'\[', r'\{', r'\*',
            '[abc]', '[^abc]', '[a-z0-9_]', r'[\d\s]', r'[\]\\^-]', '[.]', "'", '"', '<', '>', '&', 'é', '-', '#', '/', ':', '=', '!', '%', ',', '_', '~', '`', '@']
RE_QUANT = ['', '', '', '*', '+', '?', '*?', '+?', '??', '{2}', '{2,}', '{,3}', '{2,5}', '{2,5}?']


RE_CLASS_ITEMS = ['a', 'z', 'A', '0', '9', '_', 'a-z', '0-9', 'A-F', r'\-', r'\]', r'\^', r'\\', r'\[', r'\d', r'\w', r'\s', r'\n', r'\t', '.', '-', '^', ' ', '$', '*', '(', ')', '|', "'", '"', 'é', r'\x41', r'\.']


def st_regex():
    from hypothesis import strategies as st
    # character classes: members, ranges and escaped specials in every position (an escaped hyphen between two members is a member, not a range)
    charclass = st.tuples(st.sampled_from(['', '', '^']), st.lists(st.sampled_from(RE_CLASS_ITEMS), min_size=1, max_size=4)).map(lambda t: '[' + t[0] + ''.join(t[1]) + ']')
    atom = st.one_of(st.sampled_from(RE_ATOMS), st.sampled_from(RE_ATOMS), charclass)

    def group(children):
        inner = st.lists(children, min_size=1, max_size=3).map(''.join)
        return st.one_of(
            inner.map(lambda x: '(' + x + ')'), inner.map(lambda x: '(?:' + x + ')'), inner.map(lambda x: '(?P<n>' + x + ')'),
            inner.map(lambda x: '(?=' + x + ')'), inner.map(lambda x: '(?!' + x + ')'), inner.map(lambda x: '(?<=a' + ')' + x), inner.map(lambda x: '(?<!b)' + x),
            st.tuples(inner, inner).map(lambda t: t[0] + '|' + t[1]), st.tuples(inner, inner).map(lambda t: '(?:' + t[0] + '|' + t[1] + ')'),
            inner.map(lambda x: '(' + x + r')\1'), inner.map(lambda x: '(?P<q>' + x + ')(?P=q)'), inner.map(lambda x: '(x)?(?(1)' + x + '|y)'),
            inner.map(lambda x: '(?i:' + x + ')'), inner.map(lambda x: '(?s)' + x), st.tuples(children, st.sampled_from(RE_QUANT)).map(lambda t: '(?:' + t[0] + ')' + t[1]))
    piece = st.tuples(atom, st.sampled_from(RE_QUANT)).map(lambda t: t[0] + t[1] if t[0] not in ('^', '$', r'\b', r'\B', r'\A', r'\Z') else t[0])
    pat = st.recursive(piece, group, max_leaves=8)
    flags = st.sampled_from(['', '', '', '', ', re.I', ', re.I | re.M', ', flags=re.S', ', re.VERBOSE', ', 0', ', **opts', ', *a', ', re.I, **kw', ', flags=re.I, **kw', ', *a, **kw'])
    return st.tuples(st.lists(pat, min_size=1, max_size=4).map(''.join), flags, st.booleans(), st.booleans())


def check_regex(pat: str, flags: str, raw: bool, as_bytes: bool) -> Tuple[List[Tuple[str, str]], bool]:
    import re
    import warnings
    try:
        with warnings.catch_warnings():
            warnings.simplefilter('ignore')
            compiled = re.compile(pat.encode('utf-8') if as_bytes else pat)
    except Exception:
        return [], False
    if as_bytes and any(ord(c) > 127 for c in pat):
        return [], False
    lit = repr(pat.encode('utf-8')) if as_bytes else repr(pat)
    text = 're.compile(%s%s)' % (lit, flags)
    if not exprs.valid(text):
        return [], False
    shown, complete, warns, problem = render(text, 'inline')
    out: List[Tuple[str, str]] = []
    if problem and 'undefined entity' not in (problem or ''):
        out.append(('regex:stan-vs-node', 'pattern %r: %s' % (pat, problem)))
    if not complete:
        return out, True
    try:
        tree = ast.parse(shown, mode='eval').body
    except SyntaxError:
        return out + [('regex:not-python', 'pattern %r is displayed as %r which is not a Python expression' % (pat, shown))], True
    src_tree = ast.parse(text, mode='eval').body
    ok = isinstance(tree, ast.Call) and exprnorm.norm_dump(tree.func) == exprnorm.norm_dump(src_tree.func) and len(tree.args) >= 1
    if not ok:
        return out + [('regex:call-shape', 'pattern %r is displayed as %r' % (pat, shown))], True
    # flags / remaining arguments must be the same expressions
    # re.compile(pattern, flags=0): the arguments are bound to this signature and shown positionally
    rest_src = [exprnorm.norm_dump(a) for a in src_tree.args[1:]] + [exprnorm.norm_dump(k.value) for k in src_tree.keywords if k.arg == 'flags']
    rest_got = [exprnorm.norm_dump(a) for a in tree.args[1:]] + [exprnorm.norm_dump(k.value) for k in tree.keywords if k.arg == 'flags']
    # (arguments passed with ** cannot be bound to the signature: they must still be shown)
    rest_src += ['**' + exprnorm.norm_dump(k.value) for k in src_tree.keywords if k.arg is None]
    rest_got += ['**' + exprnorm.norm_dump(k.value) for k in tree.keywords if k.arg is None]
    if rest_src != rest_got:
        out.append(('regex:flags', 'pattern %r with arguments %r is displayed as %r' % (pat, flags, shown)))
    a0 = tree.args[0]
    if not (isinstance(a0, ast.Constant) and isinstance(a0.value, (str, bytes))):
        return out + [('regex:call-shape', 'pattern %r is displayed as %r' % (pat, shown))], True
    shown_pat = a0.value
    want_pat = pat.encode('utf-8') if as_bytes else pat
    if shown_pat != want_pat:
        # a different spelling is fine if it is the same regular expression
        try:
            import re._parser as sp  # type: ignore
        except ImportError:  # pragma: no cover
            import sre_parse as sp  # type: ignore
        try:
            with warnings.catch_warnings():
                warnings.simplefilter('ignore')
                t1 = sp.parse(want_pat)
                t2 = sp.parse(shown_pat)
            same = repr(t1) == repr(t2) and t1.state.flags == t2.state.flags
        except Exception as e:
            same = False
        if not same:
            out.append(('regex:pattern-changed', 'pattern %r is displayed as %r (%r), which is a different regular expression' % (want_pat, shown_pat, shown)))
    return out, True
