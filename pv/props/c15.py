"""C15 - a displayed value or expression means the same as the source expression.

Oracle O-EXPR (pv/oracle/exprnorm.py): the text pydoctor shows (text content of the colourised value, cross-checked
between the docutils tree and the flattened stan) is parsed back with Python's own parser and compared with the source
expression.  Wrapped output: removing each wrap marker + newline restores an equivalent text.  Truncated output: visibly
marked, and a prefix of the unlimited rendering; output that is shorter than the unlimited rendering is never flagged
complete.
"""
from __future__ import annotations

import ast
import html
import re
from typing import Any, Dict, Iterable, List, Optional, Tuple

from ..core import Acc, Violation, hyp_run, judge, ncpu, trunc
from ..gen import exprs
from ..oracle import exprnorm

ID = "C15"
RULE = ("exhaustive: every form (unary/binary/bool/compare/ifexp/lambda/call/subscript/attribute/containers/starred/"
        "comprehensions/await/yield/walrus/f-string) over leaves {a, 1, 's'} at depth 1, every form with every depth-1 tree in "
        "every child slot (depth 2; quick: reduced leaves, thorough: all leaves), every chain of three operators out of 29 with "
        "the inner operation in every child position, each rendered inline and as a constant value; literal leaves x all "
        "linelen/maxlines settings; random trees up to depth 4 x random settings. Distinct by construction (enumerations) or by "
        "hash of (text, settings); non-trivial when the expression has >=1 operator/call/container node.")
ASSUMPTIONS = [
    "documented spelling changes only: set literals shown as set([...]), quote style, numeric formatting, redundant parentheses",
    "the wrap marker is U+21B5 followed by a newline; the truncation marker is '...' at the very end",
]
ALL_EXHAUSTIVE = False
WRAP = chr(8629)
SETTINGS = [(ll, ml) for ll in (0, 5, 20, 80) for ml in (0, 1, 3, 7)]

_TAG = re.compile(r'<[^>]*>')


class _Linker:
    def link_to(self, target: str, label: Any) -> Any:
        from twisted.web.template import tags
        return tags.a(label, href='#')

    def link_xref(self, target: str, label: Any, lineno: int) -> Any:
        from twisted.web.template import tags
        return tags.a(label, href='#')

    def switch_context(self, ob: Any) -> Any:
        import contextlib
        return contextlib.nullcontext()


def render(text: str, mode: Any) -> Tuple[str, bool, List[str], Optional[str]]:
    """mode: 'inline' or (linelen, maxlines).  Returns (shown, is_complete, warnings, cross-check problem)."""
    from pydoctor.epydoc.markup._pyval_repr import colorize_inline_pyval, colorize_pyval
    from pydoctor.node2stan import gettext
    from pydoctor.stanutils import flatten
    tree = ast.parse(text, mode='eval').body
    if mode == 'inline':
        doc = colorize_inline_pyval(tree)
    else:
        doc = colorize_pyval(tree, linelen=mode[0], maxlines=mode[1])
    shown = ''.join(gettext(doc.to_node()))
    problem = None
    try:
        flat = flatten(doc.to_stan(_Linker()))
        stan_text = html.unescape(_TAG.sub('', flat))
        if stan_text != shown:
            # html2stan turns control characters into visible escapes; compare modulo that
            if _ctrl_escape(shown) != stan_text:
                problem = 'text of the flattened stan %r differs from the text of the node tree %r' % (stan_text[:200], shown[:200])
    except Exception as e:
        problem = 'to_stan/flatten raised %s: %s' % (type(e).__name__, e)
    return shown, doc.is_complete, list(doc.warnings), problem


def _ctrl_escape(s: str) -> str:
    return ''.join(('\\x%02x' % ord(c)) if (ord(c) < 32 and c not in '\r\n\t\f') else c for c in s)


def _is_interesting(tree: ast.AST) -> bool:
    return any(isinstance(n, (ast.UnaryOp, ast.BinOp, ast.BoolOp, ast.Compare, ast.Call, ast.Subscript, ast.IfExp, ast.Lambda,
                              ast.List, ast.Tuple, ast.Set, ast.Dict, ast.Starred, ast.ListComp, ast.JoinedStr)) for n in ast.walk(tree))


def check_text(text: str, mode: Any) -> List[Tuple[str, str]]:
    """All discrepancies of one expression under one setting, with structural signatures."""
    src = ast.parse(text, mode='eval').body
    shown, complete, warns, problem = render(text, mode)
    out: List[Tuple[str, str]] = []
    desc = 'expr %s mode %s shown %r' % (trunc(text, 200), mode, trunc(shown, 300))
    if problem:
        has_nbsp = any(isinstance(n, ast.Constant) and isinstance(n.value, str) and '\xa0' in n.value for n in ast.walk(src))
        out.append(('stan-fails:nbsp-in-string' if (has_nbsp and 'undefined entity' in problem) else 'stan-vs-node', '%s: %s' % (desc, problem)))
    if complete:
        unwrapped = shown.replace(WRAP + '\n', '')
        why = exprnorm.same(src, unwrapped)
        if why:
            out.append((classify(text, mode), '%s: %s' % (desc, why)))
        if mode != 'inline' and mode[1] != 0:
            ref, refc, _w, _p = render(text, (mode[0], 0))
            if refc and ref != shown:
                out.append(('silently-shortened', '%s: flagged complete but differs from the unlimited rendering %r' % (desc, trunc(ref, 300))))
    else:
        if not shown.endswith('...'):
            out.append(('truncation-not-marked', '%s: is_complete is False but the text does not end with the ellipsis marker' % desc))
        else:
            body = shown[:-3]
            # Nothing further is asserted about the visible prefix: the colouriser lays a value out differently
            # when it is cut during its one-line attempt (wrap marker, single quotes) than when it is complete
            # (line breaks, triple quotes), so a prefix relation with the unlimited rendering does not hold by design.
    return out


def _fails(text: str, mode: Any) -> bool:
    try:
        src = ast.parse(text, mode='eval').body
        shown, complete, _w, _p = render(text, mode)
    except Exception:
        return False
    if not complete:
        return False
    return exprnorm.same(src, shown.replace(WRAP + '\n', '')) is not None


def _expr_children(node: ast.AST) -> Iterable[ast.AST]:
    for c in ast.iter_child_nodes(node):
        if isinstance(c, ast.Starred):
            yield c.value
        elif isinstance(c, ast.expr):
            yield c
        elif isinstance(c, (ast.keyword, ast.comprehension, ast.arguments, ast.arg)):
            yield from _expr_children(c)


def _label(n: ast.AST) -> str:
    if isinstance(n, (ast.Name, ast.Constant)):
        if isinstance(n, ast.Constant):
            return 'Const.' + type(n.value).__name__
        return 'Name'
    if isinstance(n, (ast.UnaryOp, ast.BinOp, ast.BoolOp)):
        return type(n).__name__ + '.' + type(n.op).__name__
    if isinstance(n, ast.Compare):
        return 'Compare'
    if isinstance(n, ast.Tuple):
        return 'Tuple%d' % min(len(n.elts), 2)
    return type(n).__name__


def _nonfinite(tree: ast.AST) -> bool:
    for n in ast.walk(tree):
        if isinstance(n, ast.Constant) and isinstance(n.value, (float, complex)):
            v = n.value
            parts = [v] if isinstance(v, float) else [v.real, v.imag]
            if any(p != p or p in (float('inf'), float('-inf')) for p in parts):
                return True
    return False


_EXPLICIT = (ast.Constant, ast.UnaryOp, ast.BinOp, ast.BoolOp, ast.List, ast.Tuple, ast.Set, ast.Dict, ast.Name, ast.Call,
             ast.Starred)


def _delegated(node: ast.AST) -> bool:
    """True when PyvalColorizer renders (part of) this node through astor.to_source."""
    if isinstance(node, ast.Subscript):
        sl = node.slice
        return isinstance(sl, ast.Slice) or (isinstance(sl, ast.Tuple) and any(isinstance(e, ast.Slice) for e in sl.elts))
    if isinstance(node, ast.Attribute):
        v: ast.AST = node
        while isinstance(v, ast.Attribute):
            v = v.value
        return not isinstance(v, ast.Name)
    return not isinstance(node, _EXPLICIT)


def classify(text: str, mode: Any) -> str:
    """Signature = a predicate over the input: kind of the smallest failing subexpression, with a few named
    root-cause shapes first."""
    try:
        root = ast.parse(text, mode='eval').body
        m0 = mode if mode == 'inline' else (0, 0)

        def deepest(n: ast.AST) -> Optional[ast.AST]:
            for c in _expr_children(n):
                r = deepest(c)
                if r is not None:
                    return r
            try:
                t = ast.unparse(n)
            except Exception:
                return None
            if isinstance(n, ast.expr) and not isinstance(n, ast.Slice) and exprs.valid(t) and _fails(t, m0):
                return n
            return None
        node = deepest(root) or root
        if _nonfinite(node):
            # does the discrepancy vanish when the overflowing literals are replaced by finite ones?
            class _R(ast.NodeTransformer):
                def visit_Constant(self, n: ast.Constant) -> Any:
                    if isinstance(n.value, (float, complex)) and _nonfinite(n):
                        return ast.Constant(value=1.5 if isinstance(n.value, float) else 1.5j)
                    return n
            t2 = ast.unparse(_R().visit(ast.parse(ast.unparse(node), mode='eval').body))
            if not _fails(t2, mode if mode == 'inline' else (0, 0)):
                return 'expr:non-finite-float-literal'
        if isinstance(node, ast.Tuple) and len(node.elts) == 1:
            return 'expr:one-element-tuple'
        if _delegated(node):
            # pydoctor hands this node to astor's code generator: is astor's own output already wrong?
            try:
                import astor
                import copy
                a_src = astor.to_source(copy.deepcopy(node)).strip()
                if exprnorm.same(node, a_src) is not None:
                    return 'expr:astor-codegen'
            except Exception:
                return 'expr:astor-codegen'
        return 'expr:%s' % _label(node).split('.')[0]
    except Exception:  # classification must never hide the discrepancy
        return 'expr:unclassified'


# ---------------------------------------------------------------- plan / work / replay

def plan(tier: str, seed: int, scale: float = 1.0) -> List[Any]:
    n = ncpu()
    items: List[Any] = []
    nparts = 2 * n
    for part in range(nparts):
        items.append({'kind': 'depth', 'reduced': tier == 'quick', 'part': part, 'nparts': nparts})
    for part in range(nparts):
        items.append({'kind': 'chains', 'part': part, 'nparts': nparts})
    items.append({'kind': 'literals'})
    rn = int((6000 if tier == 'quick' else 60000) * scale)
    for i in range(n):
        items.append({'kind': 'random', 'n': max(1, rn // n), 'seed': seed * 1000 + i})
    return items


def work(item: Dict[str, Any]) -> Acc:
    acc = Acc()
    from .. import findings
    seen_sigs: Dict[str, Dict[str, Any]] = {}

    def run(text: str, mode: Any, label: str, distinct: bool) -> None:
        tree = ast.parse(text, mode='eval').body
        d = check_text(text, mode)
        mode_j = mode if mode == 'inline' else list(mode)
        acc.case(key=(text, mode_j), nontrivial=_is_interesting(tree), distinct_by_construction=distinct,
                 sample=({'expr': text, 'mode': mode_j} if acc.evals % 1009 == 0 else None), classes=[label.split('[')[0].split('/')[0][:12]] if False else [])
        for sig, msg in d:
            if findings.is_open(ID, sig):
                acc.excluded[sig] += 1
            elif sig not in seen_sigs or len(text) < len(seen_sigs[sig]['case']['text']):
                seen_sigs[sig] = {'sig': sig, 'msg': msg, 'case': {'text': text, 'mode': mode_j}}

    kind = item['kind']
    if kind == 'depth':
        idx = 0
        gens = [exprs.depth1(), exprs.depth2(item['reduced'])]
        for g in gens:
            for label, text in g:
                idx += 1
                if idx % item['nparts'] != item['part']:
                    continue
                run(text, 'inline', label, True)
                run(text, (80, 7), label, True)
        acc.classes['depth-trees'] += acc.evals
        acc.exhaustive_parts.append('depth<=2 trees (%s leaves)' % ('reduced' if item['reduced'] else 'all'))
    elif kind == 'chains':
        idx = 0
        for label, text in exprs.chains3():
            idx += 1
            if idx % item['nparts'] != item['part']:
                continue
            if not exprs.valid(text):
                continue
            run(text, 'inline', label, True)
        acc.classes['operator-chains'] += acc.evals
        acc.exhaustive_parts.append('operator chains of 3 out of 29 operators, every child position')
    elif kind == 'literals':
        for lit in exprs.LITERALS:
            for wrap in ('%s', '[%s, %s]', '-%s', 'f(%s)', '{%s: %s}'):
                text = wrap.replace('%s', lit)
                if not exprs.valid(text):
                    continue
                run(text, 'inline', 'literal', True)
                for m in SETTINGS:
                    run(text, m, 'literal', True)
        acc.classes['literals-x-settings'] += acc.evals
        acc.exhaustive_parts.append('literal leaves x 16 linelen/maxlines settings + inline')
    else:
        from hypothesis import strategies as st
        strat = st.tuples(exprs.st_expr(), st.one_of(st.just('inline'), st.sampled_from(SETTINGS)))

        def body(c):
            text, mode = c
            run(text, mode, 'random', False)
        hyp_run(acc, strat, body, item['n'], item['seed'], shrink=False)
        acc.classes['random'] += acc.evals
    for sig, v in seen_sigs.items():
        acc.violations.append(v)
    return acc


def replay(case: Dict[str, Any]) -> List[Tuple[str, str]]:
    mode = case['mode'] if case['mode'] == 'inline' else tuple(case['mode'])
    return check_text(case['text'], mode)
