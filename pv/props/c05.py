"""C05 - inheritance is computed as Python computes it.

Oracle: CPython itself.  The abstract hierarchy (class i takes an ordered, repetition-free tuple of earlier
classes as bases; members with/without docstrings at chosen levels) is turned (a) into real classes with
type(), giving __mro__, the defining class of every visible member and inspect.getdoc, or the C3 TypeError;
(b) into pydoctor source text (one module for the exhaustive part, several modules with cross-module imports
and Base[T] subscripts for the random part).
"""
from __future__ import annotations

import inspect
import itertools
from typing import Any, Dict, List, Optional, Sequence, Tuple

from ..core import Acc, Violation, hyp_run, judge, ncpu
from ..sysutil import build, make_system, render_page

ID = "C05"
RULE = ("exhaustive: every hierarchy of n<=N classes in which class i has any ordered repetition-free tuple of earlier "
        "classes as bases (N=5: 10400 hierarchies + smaller n), each with a member pattern derived from its index; "
        "distinct by construction; non-trivial when some class has >=2 bases. random: 6-12 classes over 2-5 modules with "
        "cross-module imports, Base[T] subscripts, methods/properties/class variables with and without docstrings; "
        "distinct by hash of the abstract hierarchy.")
ASSUMPTIONS = [
    "duplicate bases (class C(A, A)) are a different Python error and are not generated",
    "classes deriving from a class Python rejects have no oracle and are only required to be documented",
    "inspect.getdoc semantics for functions and properties (data members are compared by defining class only)",
]
ALL_EXHAUSTIVE = False


def base_choices(i: int) -> List[Tuple[int, ...]]:
    out: List[Tuple[int, ...]] = []
    for r in range(0, i + 1):
        out.extend(itertools.permutations(range(i), r))
    return out


_ORACLE_MOD = 'pv_c05_oracle_namespace'
QUIRKS = [0]


def py_oracle(hier: Sequence[Sequence[int]], members: Sequence[Dict[str, Optional[str]]],
              kinds: Optional[Sequence[Dict[str, str]]] = None, generic: Optional[Sequence[bool]] = None,
              subs: Optional[Sequence[Sequence[bool]]] = None, genfirst: Optional[Sequence[bool]] = None) -> List[Optional[Dict[str, Any]]]:
    """Create the classes one at a time with CPython.  Result per class: None if it has no oracle (derives from
    a rejected class), {'error': True} if Python rejects it, else
    {'mro': [...], 'where': {name: idx}, 'doc': {name: str|None}}.
    The classes live in a registered module so that inspect.getdoc can find overridden members."""
    import sys
    import types
    import typing
    T = typing.TypeVar('T')
    mod = types.ModuleType(_ORACLE_MOD)
    sys.modules[_ORACLE_MOD] = mod
    classes: List[Any] = []
    res: List[Optional[Dict[str, Any]]] = []
    try:
        for i, bases in enumerate(hier):
            if any(classes[b] is None for b in bases):
                # no linearisation exists for a class one of whose ancestors has none: Python could not define it either
                classes.append(None)
                res.append({'error': True, 'derived': True})
                continue
            ns: Dict[str, Any] = {}
            for name, doc in members[i].items():
                kind = (kinds[i].get(name) if kinds else None) or 'method'
                if kind == 'var':
                    ns[name] = i
                    continue

                def f(self):  # noqa
                    pass
                f.__name__ = name
                f.__qualname__ = 'C%d.%s' % (i, name)
                f.__module__ = _ORACLE_MOD
                f.__doc__ = doc
                ns[name] = property(f) if kind == 'property' else f
            bl: List[Any] = []
            for j, b in enumerate(bases):
                bl.append(classes[b][T] if (subs and subs[i][j]) else classes[b])
            if generic and generic[i]:
                if genfirst and genfirst[i]:
                    bl.insert(0, typing.Generic[T])
                else:
                    bl.append(typing.Generic[T])
            try:
                c = types.new_class('C%d' % i, tuple(bl), {}, lambda d, ns=ns: d.update(ns))
            except TypeError as e:
                if 'MRO' not in str(e) and 'consistent method resolution' not in str(e):
                    raise
                classes.append(None)
                res.append({'error': True})
                continue
            c._idx = i
            c.__module__ = _ORACLE_MOD
            c.__qualname__ = 'C%d' % i
            setattr(mod, 'C%d' % i, c)
            classes.append(c)
            real = [k for k in c.__mro__ if k is not object and k is not typing.Generic]
            mro = [k._idx for k in real]
            where: Dict[str, int] = {}
            docs: Dict[str, Optional[str]] = {}
            allnames = set()
            for k in real:
                allnames.update(n for n in vars(k) if not n.startswith('_'))
            for n in allnames:
                for k in real:
                    if n in vars(k):
                        where[n] = k._idx
                        break
                v = getattr(c, n)
                # docstring inheritance concerns members this class defines itself (possibly without docstring)
                if n in vars(c) and (callable(v) or isinstance(v, property)):
                    # "as attribute lookup along that order yields": the first class of the linearisation whose own
                    # namespace has the member with a docstring.  inspect.getdoc agrees except for one quirk: it calls
                    # getattr(base, name) on each base, which follows *that base's* own MRO and can therefore return
                    # the docstring of a class that comes later in this class's order.  The quirk cases are counted.
                    d = None
                    for k in real:
                        own = vars(k).get(n)
                        if own is not None:
                            fn = own.fget if isinstance(own, property) else own
                            # (an empty docstring is a docstring: the lookup ends there and the member counts as undocumented)
                            if getattr(fn, '__doc__', None) is not None:
                                d = inspect.cleandoc(fn.__doc__) or None
                                break
                    docs[n] = d
                    gd = inspect.getdoc(v) or None
                    if gd != d:
                        QUIRKS[0] += 1
            res.append({'mro': mro, 'where': where, 'doc': docs})
    finally:
        sys.modules.pop(_ORACLE_MOD, None)
    return res


def to_source_single(hier: Sequence[Sequence[int]], members: Sequence[Dict[str, Optional[str]]]) -> Tuple[str, Dict[int, int]]:
    lines: List[str] = []
    lineno: Dict[int, int] = {}
    for i, bases in enumerate(hier):
        lineno[i] = len(lines) + 1
        lines.append('class C%d%s:' % (i, '(' + ', '.join('C%d' % b for b in bases) + ')' if bases else ''))
        if not members[i]:
            lines.append('    pass')
        for name, doc in members[i].items():
            lines.append('    def %s(self):' % name)
            lines.append('        %s' % (repr(doc) if doc is not None else 'pass'))
    return '\n'.join(lines) + '\n', lineno


def member_pattern(idx: int, n: int) -> List[Dict[str, Optional[str]]]:
    """Deterministic variety: which classes define `m` (and whether with a docstring) depends on the index."""
    out: List[Dict[str, Optional[str]]] = []
    a = idx * 2654435761 % (1 << 16)
    for i in range(n):
        d: Dict[str, Optional[str]] = {}
        if (a >> i) & 1:
            d['m'] = ('doc m in C%d' % i) if (a >> (i + 5)) & 1 else ('' if (a >> (i + 3)) & 3 == 0 else None)
        if (a >> (i + 10)) & 1:
            d['k'] = 'doc k in C%d' % i
        out.append(d)
    return out


def check_system(s: Any, names: Sequence[str], linenos: Dict[int, Tuple[str, int]], oracle: Sequence[Optional[Dict[str, Any]]],
                 desc: str, render_rejected: bool = True) -> List[Tuple[str, str]]:
    """names[i] = full name of class i in the system."""
    from pydoctor import model
    out: List[Tuple[str, str]] = []
    idx_of = {nm: i for i, nm in enumerate(names)}
    mro_msgs = [m for sec, m, _t in s.msgs if sec == 'mro']
    for i, want in enumerate(oracle):
        cls = s.allobjects.get(names[i])
        if not isinstance(cls, model.Class):
            out.append(('not-documented', '%s: class %s is not documented (%r)' % (desc, names[i], cls)))
            continue
        if want is None:
            continue
        modname, line = linenos[i]
        reported = [m for m in mro_msgs if m.startswith('%s:%d:' % (modname, line))]
        if want.get('error'):
            if not reported:
                out.append(('inconsistency-not-reported', '%s: Python rejects %s (C3 TypeError) but no mro message names it; mro messages: %s' % (desc, names[i], mro_msgs[:3])))
            # "and still documents it": whatever order is used instead starts with the class itself, so that its own members are found
            # on it and not on a base
            order_ = cls.mro()
            if not order_ or order_[0] is not cls:
                out.append(('rejected-lookup-order', '%s: the lookup order of the rejected class %s does not start with the class itself: %s' % (desc, names[i], [c_.fullName() for c_ in order_])))
            for n_, own_ in cls.contents.items():
                if cls.find(n_) is not own_:
                    out.append(('rejected-lookup-order', '%s: %s.find(%r) gives %r, the class defines it itself' % (desc, names[i], n_, cls.find(n_))))
                    break
            if render_rejected:
                try:
                    html = render_page(cls)
                    if names[i].rsplit('.', 1)[-1] not in html:
                        out.append(('rejected-not-rendered', '%s: page of %s lacks its name' % (desc, names[i])))
                except Exception as e:
                    out.append(('rejected-not-rendered', '%s: rendering %s raised %s: %s' % (desc, names[i], type(e).__name__, e)))
            continue
        if reported:
            out.append(('spurious-mro-error', '%s: Python accepts %s but pydoctor reports %s' % (desc, names[i], reported[0])))
        got = [idx_of.get(c.fullName(), -1) for c in cls.mro()]
        if got != want['mro']:
            out.append(('mro-differs', '%s: mro of %s is %s, Python gives %s' % (desc, names[i], got, want['mro'])))
            continue
        for n, widx in want['where'].items():
            found = cls.find(n)
            if found is None or found.parent is not s.allobjects.get(names[widx]):
                out.append(('member-attribution', '%s: %s.find(%r) -> %r, Python finds it in %s' % (desc, names[i], n, found, names[widx])))
                continue
            if n in want['doc']:
                # the member as seen on this class: its own entry if defined here, else inherited
                own = cls.contents.get(n)
                target = own if own is not None else found
                gd = model.get_docstring(target)[0]
                if (gd or None) != want['doc'][n]:
                    out.append(('inherited-docstring', '%s: docstring of %s.%s is %r, inspect.getdoc gives %r' % (desc, names[i], n, gd, want['doc'][n])))
        # the same attribution as it is *shown*: the table of inherited members and the "overrides" note of an own member
        try:
            from pydoctor.templatewriter import pages, util
            from pydoctor.stanutils import flatten
            import re as _re
            shown_inh = {m.name: idx_of.get(m.parent.fullName(), -1) for m in util.inherited_members(cls)}
            for n, widx in want['where'].items():
                if widx != i and n in shown_inh and shown_inh[n] != widx:
                    out.append(('shown-attribution', '%s: the inherited members of %s list %r from %s, Python finds it in %s' % (desc, names[i], n, names[shown_inh[n]] if shown_inh[n] >= 0 else '?', names[widx])))
                if widx == i:
                    # next class along Python's order that defines the name itself
                    nxt = [j for j in want['mro'][1:] if j >= 0 and oracle[j] is not None and not oracle[j].get('error') and oracle[j]['where'].get(n) == j]
                    html = ''.join(flatten(x) for x in pages.get_override_info(cls, n))
                    m_ = _re.search(r'overrides <code><a [^>]*>([^<]+)</a>', html)
                    shown = m_.group(1) if m_ else None
                    expect = (names[nxt[0]] + '.' + n) if nxt else None
                    if shown != expect and not (expect is None and shown is None):
                        out.append(('shown-attribution', '%s: the page of %s says %s.%s overrides %s, along Python\'s order it overrides %s' % (desc, names[i], names[i], n, shown, expect)))
        except Exception as e:
            import traceback
            out.append(('shown-attribution-raises', '%s: %s\n%s' % (desc, e, traceback.format_exc()[-500:])))
    return out


def check_single(hier: Sequence[Sequence[int]], members: Sequence[Dict[str, Optional[str]]]) -> List[Tuple[str, str]]:
    src, lineno = to_source_single(hier, members)
    oracle = py_oracle(hier, members)
    s = build([('m', None, False, src)])
    names = ['m.C%d' % i for i in range(len(hier))]
    return check_system(s, names, {i: ('m', l) for i, l in lineno.items()}, oracle, 'hierarchy %s members %s' % ([list(b) for b in hier], list(members)))


# ---------------------------------------------------------------- random multi-module

def _st_multi():
    from hypothesis import strategies as st

    @st.composite
    def t(draw):
        n = draw(st.integers(4, 12))
        nmod = draw(st.integers(2, 5))
        hier: List[List[int]] = []
        modof: List[int] = []
        generic: List[bool] = []
        genfirst: List[bool] = []
        members: List[Dict[str, Optional[str]]] = []
        kinds: List[Dict[str, str]] = []
        subs: List[List[bool]] = []
        for i in range(n):
            k = draw(st.integers(0, min(i, 3)))
            bases = draw(st.permutations(range(i)).map(lambda p: list(p)[:k])) if i else []
            hier.append(list(bases))
            modof.append(draw(st.integers(0, nmod - 1)))
            generic.append(draw(st.integers(0, 3)) == 0)
            genfirst.append(draw(st.integers(0, 3)) == 0)   # Generic[T] written before the other bases: rejected when one of them is generic itself
            subs.append([generic[b] and draw(st.booleans()) for b in bases])
            d: Dict[str, Optional[str]] = {}
            kd: Dict[str, str] = {}
            for name in draw(st.lists(st.sampled_from(['m', 'k', 'p', 'v', 'w']), max_size=4, unique=True)):
                kind = {'p': 'property', 'v': 'var', 'w': 'var'}.get(name, 'method')
                kd[name] = kind
                d[name] = None if kind == 'var' else draw(st.sampled_from([None, None, None, 'doc %s in C%d' % (name, i), 'doc %s in C%d' % (name, i), 'doc %s in C%d' % (name, i), '', '   ']))
            members.append(d)
            kinds.append(kd)
        style = [draw(st.integers(0, 3)) for _ in range(n)]
        return {'kind': 'multi', 'hier': hier, 'modof': modof, 'generic': generic, 'genfirst': genfirst, 'subs': subs, 'members': members, 'kinds': kinds, 'style': style, 'nmod': nmod}
    return t()


def to_source_multi(c: Dict[str, Any]) -> Tuple[Dict[str, str], List[str], Dict[int, Tuple[str, int]]]:
    """Package p with modules m0..; a class is referred to from another module through one of several import styles.
    Import cycles between modules are possible (modules are assigned at random), which is legal for pydoctor."""
    nmod = c['nmod']
    lines: Dict[int, List[str]] = {m: ['from typing import Generic, TypeVar', "T = TypeVar('T')"] for m in range(nmod)}
    names: List[str] = []
    linenos: Dict[int, Tuple[str, int]] = {}
    for i, bases in enumerate(c['hier']):
        m = c['modof'][i]
        L = lines[m]
        brefs = []
        for j, b in enumerate(bases):
            bm = c['modof'][b]
            if bm == m:
                ref = 'C%d' % b
            else:
                st_ = c['style'][i]
                if st_ == 0:
                    L.append('from p.m%d import C%d' % (bm, b)); ref = 'C%d' % b
                elif st_ == 1:
                    L.append('from .m%d import C%d as B%d_%d' % (bm, b, i, b)); ref = 'B%d_%d' % (i, b)
                elif st_ == 2:
                    L.append('import p.m%d' % bm); ref = 'p.m%d.C%d' % (bm, b)
                else:
                    L.append('from . import m%d as mm%d' % (bm, bm)); ref = 'mm%d.C%d' % (bm, b)
            if c['subs'][i][j]:
                ref += '[T]'
            brefs.append(ref)
        if c['generic'][i]:
            if c.get('genfirst') and c['genfirst'][i]:
                brefs.insert(0, 'Generic[T]')
            else:
                brefs.append('Generic[T]')
        linenos[i] = ('p.m%d' % m, len(L) + 1)
        L.append('class C%d%s:' % (i, '(' + ', '.join(brefs) + ')' if brefs else ''))
        if not c['members'][i]:
            L.append('    pass')
        for name, doc in c['members'][i].items():
            kind = c['kinds'][i][name]
            if kind == 'var':
                L.append('    %s = %d' % (name, i))
                continue
            if kind == 'property':
                L.append('    @property')
            L.append('    def %s(self):' % name)
            L.append('        %s' % (repr(doc) if doc is not None else 'pass'))
        names.append('p.m%d.C%d' % (m, i))
    files = {'p/__init__.py': ''}
    for m in range(nmod):
        files['p/m%d.py' % m] = '\n'.join(lines[m]) + '\n'
    return files, names, linenos


def check_multi(c: Dict[str, Any]) -> List[Tuple[str, str]]:
    from ..sysutil import files_to_mods
    files, names, linenos = to_source_multi(c)
    oracle = py_oracle(c['hier'], c['members'], c['kinds'], c['generic'], c['subs'], c.get('genfirst'))
    s = build(files_to_mods(files))
    out = check_system(s, names, linenos, oracle, 'multi-module hierarchy %s mods %s' % (c['hier'], c['modof']), render_rejected=True)
    if out and any(c['generic'][i] and (c.get('genfirst') or [False] * len(c['hier']))[i] and any(c['subs'][i]) for i in range(len(c['hier']))):
        # input predicate of F51: 'class C(Generic[T], Base[T])' - typing drops the explicit Generic[T] at run time (__mro_entries__)
        out = [('generic-before-subscripted-generic-base', msg) for _sig, msg in out]
    elif out and _has_import_cycle(c):
        # Python could not even import such a package; kept as a separate class of input
        out = [('cyclic-imports:' + sig, msg) for sig, msg in out]
    return out


def _has_import_cycle(c: Dict[str, Any]) -> bool:
    edges: Dict[int, set] = {}
    for i, bases in enumerate(c['hier']):
        for b in bases:
            if c['modof'][b] != c['modof'][i]:
                edges.setdefault(c['modof'][i], set()).add(c['modof'][b])
    state: Dict[int, int] = {}

    def dfs(u: int) -> bool:
        state[u] = 1
        for v in edges.get(u, ()):
            if state.get(v) == 1 or (state.get(v) is None and dfs(v)):
                return True
        state[u] = 2
        return False
    return any(state.get(u) is None and dfs(u) for u in list(edges))


# ---------------------------------------------------------------- plan / work / replay

# ------------------------------------------------------------------ hierarchies whose classes are finalised out of order
# A class may be post-processed before one of its bases: when it is visited while the base's module is still being analysed (import
# cycle) or when the base is re-registered by a re-export after the class was visited.  The linearisation must be Python's whatever
# the order.  Small exhaustive family: hierarchy x project shape x every processing order of the modules.
ORDER_HIERS = [
    [[], [0], [0], [1, 2], [3, 1]],            # Root, P(Root), Q(Root), E(P, Q), D(E, P)
    [[], [0], [0], [1, 2], [1], [3, 4]],       # ..., E(P, Q), C(P), D(E, C)
    [[], [0], [0], [1, 2], [3, 2]],            # D(E, Q)
    [[], [0], [0], [0], [1, 2, 3], [4, 1, 3]],  # E(P, Q, R), D(E, P, R)
]


def order_family_cases() -> List[Dict[str, Any]]:
    return [{'kind': 'orderfam', 'hier': h, 'shape': sh} for h in ORDER_HIERS for sh in ('cycle', 'reexport', 'reexport-alias')]


def check_order_family(case: Dict[str, Any]) -> Tuple[List[Tuple[str, str]], int]:
    from .c07 import build_in_order, orders_for
    from ..sysutil import files_to_mods
    hier, shape = case['hier'], case['shape']
    n = len(hier)
    members = [{'m': 'doc m in C%d' % i, 'k%d' % i: 'doc k in C%d' % i} if i % 2 == 0 else {'m': None, 'j%d' % i: 'doc j in C%d' % i} for i in range(n)]
    oracle = py_oracle(hier, members)
    e_idx = next(i for i, b in enumerate(hier) if len(b) >= 2)   # the first class with several bases is the one reached late
    late = list(range(e_idx + 1, n))

    def cls_src(i: int) -> str:
        body = ''.join('    def %s(self):\n        %s\n' % (nm, repr(doc) if doc is not None else 'pass') for nm, doc in members[i].items())
        return 'class C%d%s:\n%s' % (i, '(' + ', '.join('C%d' % b for b in hier[i]) + ')' if hier[i] else '', body)
    common = ''.join(cls_src(i) for i in range(e_idx))
    imp_common = 'from %%s import %s\n' % ', '.join('C%d' % i for i in range(e_idx))
    if shape == 'cycle':
        files = {'common.py': common,
                 'alpha.py': 'import beta\n' + imp_common % 'common' + cls_src(e_idx),
                 'beta.py': 'from alpha import C%d\n' % e_idx + imp_common % 'common' + ''.join(cls_src(i) for i in late)}
        names = ['common.C%d' % i for i in range(e_idx)] + ['alpha.C%d' % e_idx] + ['beta.C%d' % i for i in late]
    else:
        how = 'from ._impl import C%d\n' % e_idx if shape == 'reexport' else 'from . import _impl\nC%d = _impl.C%d\n' % (e_idx, e_idx)
        files = {'common.py': common,
                 'pkg/__init__.py': 'from ._sub import C%d\nfrom ._impl import C%d\n__all__ = [\'C%d\']\n' % (late[-1], e_idx, e_idx),
                 'pkg/_impl.py': imp_common % 'common' + cls_src(e_idx),
                 'pkg/_sub.py': how + imp_common % 'common' + ''.join(cls_src(i) for i in late)}
        names = ['common.C%d' % i for i in range(e_idx)] + ['pkg.C%d' % e_idx] + ['pkg._sub.C%d' % i for i in late]
    mods = files_to_mods(files)
    desc0 = 'hierarchy %s as project %s' % (hier, shape)
    built = 0
    for od in orders_for(mods, 120):
        order_names = [(mods[i][1] + '.' if mods[i][1] else '') + mods[i][0] for i in od]
        s = build_in_order(mods, od)
        built += 1
        d = check_system(s, names, {i: ('?', 0) for i in range(n)}, oracle, '%s, modules analysed in the order %s\n%s' % (
            desc0, order_names, '\n'.join('--- %s\n%s' % kv for kv in sorted(files.items()))), render_rejected=False)
        # a consumer that imports a re-exported class from its defining module may lose the base (finding F31): not this check's business
        d = [(sg, m) for sg, m in d if not (shape == 'reexport' and sg in ('mro-differs', 'member-attribution', 'inherited-docstring', 'shown-attribution') and _stale_base(s, names, late))]
        if d:
            return d, built
    return [], built


def _stale_base(s: Any, names: Sequence[str], late: Sequence[int]) -> bool:
    from pydoctor import model
    return any(isinstance(s.allobjects.get(names[i]), model.Class) and None in s.allobjects[names[i]].baseobjects for i in late)


def plan(tier: str, seed: int, scale: float = 1.0) -> List[Any]:
    n = ncpu()
    N = 5
    items: List[Any] = []
    nparts = 4 * n
    for part in range(nparts):
        items.append({'kind': 'enum', 'N': N, 'part': part, 'nparts': nparts})
    rn = int((800 if tier == 'quick' else 20000) * scale)
    for i in range(n):
        items.append({'kind': 'multi', 'n': max(1, rn // n), 'seed': seed * 1000 + i})
    items.append({'kind': 'orderfam'})
    if tier == 'thorough':
        for i in range(n):
            items.append({'kind': 'enum6', 'n': int(12000 * scale), 'seed': seed * 1000 + 50 + i})
    return items


def _all_hierarchies(n: int):
    choices = [base_choices(i) for i in range(n)]
    yield from itertools.product(*choices)


def work(item: Dict[str, Any]) -> Acc:
    acc = Acc()
    if item['kind'] == 'orderfam':
        for c in order_family_cases():
            d, built = check_order_family(c)
            acc.case(key=('orderfam', str(c['hier']), c['shape']), nontrivial=True, sample={'out_of_order_finalisation': c, 'systems_built': built}, classes=['finalised-out-of-order', c['shape']])
            try:
                judge(ID, acc, c, d)
            except Violation as v:
                acc.violations.append(v.as_dict())
                break
        return acc
    if item['kind'] == 'enum':
        idx = 0
        for n in range(1, item['N'] + 1):
            for hier in _all_hierarchies(n):
                idx += 1
                if idx % item['nparts'] != item['part']:
                    continue
                members = member_pattern(idx, n)
                nt = any(len(b) >= 2 for b in hier)
                acc.case(nontrivial=nt, distinct_by_construction=True,
                         sample=({'hierarchy': [list(b) for b in hier], 'members': members} if idx % 997 == 0 else None),
                         classes=['n=%d' % n])
                d = check_single(hier, members)
                if d:
                    try:
                        judge(ID, acc, {'kind': 'single', 'hier': [list(b) for b in hier], 'members': members}, d)
                    except Violation as v:
                        acc.violations.append(v.as_dict())
                        return acc
        acc.exhaustive_parts.append('all hierarchies of <=%d classes' % item['N'])
    elif item['kind'] == 'enum6':
        from hypothesis import strategies as st
        strat = st.tuples(*[st.sampled_from(base_choices(i)) for i in range(6)]).map(lambda h: {'kind': 'single', 'hier': [list(b) for b in h]})

        def body6(c):
            members = member_pattern(hash(str(c['hier'])) & 0xffff, 6)
            acc.case(key=c, nontrivial=any(len(b) >= 2 for b in c['hier']), classes=['n=6'])
            judge(ID, acc, dict(c, members=members), check_single(c['hier'], members))
        hyp_run(acc, strat, body6, item['n'], item['seed'])
    else:
        def body(c):
            orc = py_oracle(c['hier'], c['members'], c['kinds'], c['generic'], c['subs'], c.get('genfirst'))
            classes = ['multi']
            if any(o and o.get('error') for o in orc):
                classes.append('multi-with-rejected')
            if any(any(s_) for s_ in c['subs']):
                classes.append('multi-with-subscript')
            acc.case(key=c, nontrivial=any(len(b) >= 2 for b in c['hier']), sample=c, classes=classes)
            judge(ID, acc, c, check_multi(c))
        hyp_run(acc, _st_multi(), body, item['n'], item['seed'])
    acc.notes['inspect_getdoc_quirk_cases'] = QUIRKS[0]
    return acc


def replay(case: Dict[str, Any]) -> List[Tuple[str, str]]:
    if case.get('kind') == 'multi':
        return check_multi(case)
    if case.get('kind') == 'orderfam':
        return check_order_family(case)[0]
    return check_single(case['hier'], case['members'])
