"""C04 - a name resolves to what Python would bind it to, or not at all.

Differential against CPython: generated acyclic multi-package projects (pv/gen/runproj.py) are imported by the
interpreter (in-process, sys.modules purged afterwards); for every module and class namespace, every bound name and
every dotted path alias.member[.member] (depth <= 3) that the interpreter can evaluate is also given to
Documentable.resolveName: the result must be None or the object with the same identity token - never a different
object.  Completeness: a name imported directly from the module that defines the object, or reached through a module
alias, must resolve.
"""
from __future__ import annotations

import ast
import inspect
import types
from typing import Any, Dict, List, Optional, Set, Tuple

from ..core import Acc, Violation, hyp_run, judge, ncpu, trunc
from ..gen import runproj
from ..oracle import cpython
from ..sysutil import build, files_to_mods

ID = "C04"
RULE = ("acyclic projects of 5-9 modules in 2 root packages nested up to 3 deep; globally unique definition names, each name bound once "
        "per scope; imports in 10 forms (plain, aliased, from-module, from-name, relative with levels 1-3, star with/without __all__, "
        "inside class bodies), alias assignments, re-import chains. A project is non-trivial when >=1 checked name crosses a package "
        "boundary through an alias or a relative import; distinct by hash of the abstract project. The evidence counts checked names.")
ASSUMPTIONS = [
    "the interpreter's binding is the oracle; identity = ID token in the docstring, unique integer value, or module name",
    "completeness is required only for names imported from the defining module and for <module alias>.<name> (the statement)",
]


def runtime_names(mods: Dict[str, types.ModuleType]) -> Dict[str, Dict[str, str]]:
    """context full name -> {dotted name: token} for everything evaluable there (depth <= 3)."""
    out: Dict[str, Dict[str, str]] = {}

    def expand(prefix: str, val: Any, depth: int, acc: Dict[str, str]) -> None:
        t = cpython.token(val)
        if t is None:
            return
        acc[prefix] = t
        if depth >= 3:
            return
        if isinstance(val, types.ModuleType) or inspect.isclass(val):
            for k, v in list(vars(val).items()):
                if k.startswith('__'):
                    continue
                expand(prefix + '.' + k, v, depth + 1, acc)
    for mname, mod in mods.items():
        acc: Dict[str, str] = {}
        for k, v in list(vars(mod).items()):
            if k.startswith('__'):
                continue
            expand(k, v, 1, acc)
        out[mname] = acc
        for k, v in list(vars(mod).items()):
            if inspect.isclass(v) and getattr(v, '__module__', None) == mname:
                cacc: Dict[str, str] = {}
                for ck, cv in list(vars(v).items()):
                    if ck.startswith('__'):
                        continue
                    expand(ck, cv, 1, cacc)
                out[mname + '.' + v.__qualname__] = cacc
                inner = vars(v).get('Inner')
                if inspect.isclass(inner):
                    iacc: Dict[str, str] = {}
                    for ck, cv in list(vars(inner).items()):
                        if ck.startswith('__'):
                            continue
                        expand(ck, cv, 1, iacc)
                    out[mname + '.' + inner.__qualname__] = iacc
    return out


def pd_token(o: Any) -> Optional[str]:
    from pydoctor import model
    if isinstance(o, model.Module):
        return 'MOD:' + o.fullName()
    if isinstance(o, (model.Class, model.Function)):
        d = o.docstring or ''
        return d if d.startswith('ID:') else None
    if isinstance(o, model.Attribute):
        v = o.value
        if isinstance(v, ast.Constant) and isinstance(v.value, int):
            return 'VAL:%d' % v.value
    return None


def check_project(proj: Dict[str, Any]) -> Tuple[List[Tuple[str, str]], Dict[str, Any]]:
    files = runproj.to_files(proj)
    info: Dict[str, Any] = {'names': 0, 'resolved': 0, 'cross': 0, 'must': 0}
    try:
        rt = cpython.import_project(files, proj['layout'], runtime_names)
    except Exception as e:
        info['not_importable'] = '%s: %s' % (type(e).__name__, e)
        return [], info
    s = build(files_to_mods(files))
    out: List[Tuple[str, str]] = []
    desc = '\n'.join('--- %s\n%s' % (k, v) for k, v in sorted(files.items()))
    for ctxname, names in rt.items():
        ctx = s.allobjects.get(ctxname)
        if ctx is None:
            out.append(('context-missing', '%s\n%s is not documented' % (desc, ctxname)))
            continue
        for name, want in names.items():
            info['names'] += 1
            got = ctx.resolveName(name)
            if got is None:
                continue
            gt = pd_token(got)
            if gt is None:
                continue
            info['resolved'] += 1
            if '.' in name or not want.startswith('MOD:'):
                info['cross'] += 1
            if gt != want:
                out.append(('wrong-object', '%s\nin %s the name %r resolves to %s (%s) but Python binds it to %s' % (desc, ctxname, name, got.fullName(), gt, want)))
    # the other direction: a definition name of the project that Python does not bind in a module must not resolve there to a
    # documented object either (it would be "a different object" than the one the name denotes: none).  Definition names are
    # globally unique and never the name of a root, so the fallback to absolute names cannot apply.
    defnames = set()
    for m in proj['mods']:
        for b in m['body']:
            if b['k'] in ('class', 'func', 'var', 'alias'):
                defnames.add(b['name'])
    for m in proj['mods']:
        ctx = s.allobjects.get(m['name'])
        bound = rt.get(m['name'], {})
        if ctx is None:
            continue
        for name in sorted(defnames):
            if name in bound:
                continue
            info['unbound_checked'] = info.get('unbound_checked', 0) + 1
            got = ctx.resolveName(name)
            if got is not None and pd_token(got) is not None:
                out.append(('unbound-name-resolves', '%s\nin %s Python binds no name %r, but it resolves to %s' % (desc, m['name'], name, got.fullName())))
    for mname, musts in (proj.get('must_star') or {}).items():
        ctx = s.allobjects.get(mname)
        for name in musts:
            if name in rt.get(mname, {}) and (ctx is None or ctx.resolveName(name) is None):
                out.append(('direct-import-rebound-through-alias-chain', '%s\nin %s the name %r is imported from its defining module and bound again, to the same object (%s), by a star import of a module that re-imports it: it does not resolve' % (
                    desc, mname, name, rt[mname][name])))
    for mname, musts in (proj.get('must') or {}).items():
        ctx = s.allobjects.get(mname)
        for name in musts:
            if name not in rt.get(mname, {}):
                continue  # shadowed or not evaluable at run time
            info['must'] += 1
            if ctx is None or ctx.resolveName(name) is None:
                out.append(('direct-import-unresolved', '%s\nin %s the name %r (imported from the defining module / through a module alias; Python: %s) does not resolve' % (
                    desc, mname, name, rt[mname][name])))
    seen = set()
    res = []
    for sig, msg in out:
        if sig not in seen:
            seen.add(sig)
            res.append((sig, msg))
    return res, info


def plan(tier: str, seed: int, scale: float = 1.0) -> List[Any]:
    n = ncpu()
    total = int((1500 if tier == 'quick' else 20000) * scale)
    return [{'n': max(1, total // n), 'seed': seed * 1000 + i} for i in range(n)]


def work(item: Dict[str, Any]) -> Acc:
    acc = Acc()

    def body(proj):
        d, info = check_project(proj)
        if info.get('not_importable'):
            acc.inconclusive += 1
            acc.notes.setdefault('not_importable_example', info['not_importable'][:200])
            return
        acc.case(key=proj, nontrivial=info['cross'] >= 1, sample={'files': {k: trunc(v, 300) for k, v in list(runproj.to_files(proj).items())[:4]}, 'names_checked': info['names']},
                 classes=['project'])
        for k in ('names', 'resolved', 'must'):
            acc.notes['names_' + k] = acc.notes.get('names_' + k, 0) + info[k]
        judge(ID, acc, proj, d)
    hyp_run(acc, runproj.projects(), body, item['n'], item['seed'])
    return acc


def replay(case: Dict[str, Any]) -> List[Tuple[str, str]]:
    return check_project(case)[0]
