"""C01 - a run never aborts: any source tree is analysed and rendered to the end.

One target (driver.main in-process on a scratch tree), three generator families:
grammar-generated modules, line/token mutations of real files, odd tree shapes / raw byte files.
Oracle: (a) no exception escapes, exit status in {0,2,3}; (b) every module PROCESSED or reported as
"cannot parse" with its path; (c) output inventory; (d) metamorphic: an unparsable file nobody imports
leaves every other object unchanged; (e) hang = alarm expiry confirmed by replay in a fresh process.
Failures are bucketed by (exception type, innermost pydoctor frame); one run enumerates root causes.
"""
from __future__ import annotations

import ast
import os
from typing import Any, Dict, List, Optional, Tuple, Union
from urllib.parse import unquote

from ..core import Acc, REPO, Violation, chash, hyp_run, judge, ncpu, trunc
from ..gen import pysource
from ..run import pydoctor_run

ID = "C01"
RULE = ("trees of 1-3 roots (packages with sub-package / flat modules / roots named like pydoctor's own output files) whose files come from the statement grammar "
        "(pv/gen/pysource.py; statements may be repeated further down, methods re-wrapped after their definition), from line/token mutations of pydoctor's own sources and demo packages, from a size class "
        "(long chains, deep nesting) and from raw byte files (BOM, bad UTF-8, NUL, coding cookies, odd stems), x docformat x "
        "theme x process-types. A case is non-trivial when >=1 file parses and defines a class or function, or an "
        "unparsable file sits beside a parsable one; distinct by hash of (files, args).")
ASSUMPTIONS = [
    "source roots exist and package roots have __init__.py (the documented error() exits with status 1 are not part of the property)",
    "a hang is an alarm expiry (90 s per tree, >100x the median) reproduced in a fresh process; a single expiry is counted inconclusive",
]
TIMEOUT = 90
DOCFORMATS = ['epytext', 'restructuredtext', 'google', 'numpy', 'plaintext']
MAXTASKS = 1

_real_cache: Dict[str, List[str]] = {}


def real_texts() -> List[str]:
    if 't' not in _real_cache:
        out = []
        for p in pysource.real_files(REPO):
            try:
                with open(p, encoding='utf-8') as fh:
                    t = fh.read()
                if t.strip():
                    out.append(t)
            except Exception:
                pass
        _real_cache['t'] = out or ['x = 1\n']
    return _real_cache['t']


RAW_FILES: List[Tuple[str, bytes]] = [
    ('bom.py', b'\xef\xbb\xbf"""bom doc"""\nx = 1\n'),
    ('latin.py', b'# -*- coding: latin-1 -*-\n"""caf\xe9"""\nx = "\xe9"\n'),
    ('badutf.py', b'"""doc"""\nx = "\xff\xfe"\n'),
    ('nul.py', b'x = 1\n\x00\ny = 2\n'),
    ('badcookie.py', b'# -*- coding: nonexistent-codec -*-\nx = 1\n'),
    ('empty.py', b''),
    ('onlyws.py', b'\n\n   \n'),
    ('crlf.py', b'"""doc"""\r\ndef f():\r\n    """d"""\r\n'),
    ('cr.py', b'x = 1\ry = 2\r'),
    ('formfeed.py', b'x = 1\n\x0c\ndef f(): pass\n'),
    ('tabs.py', b'class C:\n\tdef f(self):\n\t\t"""d"""\n        x = 1\n'),
    ('unterminated.py', b'"""never closed\nx = 1\n'),
    ('my mod.py', b'"""space in stem"""\nclass C: pass\n'),
    ('a-b.py', b'def f(): pass\n'),
    ('a.b.py', b'class D: pass\n'),
    ('caf\xc3\xa9.py', b'class \xc3\x89: pass\n'),
    ('__main__.py', b'def main(): pass\n'),
    ('class.py', b'x = 1\n'),
    ('1.py', b'y = 2\n'),
    ('utf16.py', 'x = 1\n'.encode('utf-16')),
    ('surrogate.py', b'"""\\ud800 lone surrogate docstring"""\nX = "\\udc00"\ndef f(a="\\ud800"):\n    """L{\\udfff}"""\n'),
    ('deep.py', ('X = ' + '(' * 150 + '1' + ')' * 150 + '\n').encode()),
    ('README.txt', b'not python\n'),
    ('notpy.pyi', b'x: int\n'),
]
# encoding declarations (PEP 263) in every spelling, naming text encodings, codecs that exist but are not text encodings,
# and names that do not exist; with bodies that do or do not decode under them
_CODECS = ['rot13', 'rot_13', 'hex', 'base64', 'zlib', 'bz2', 'uu', 'quopri', 'undefined', 'punycode', 'idna', 'utf-16', 'utf-32', 'utf-7', 'utf-8-sig', 'cp1252', 'cp037', 'shift_jis', 'mbcs',
           'unicode_escape', 'raw_unicode_escape', 'charmap', 'ascii', 'nonexistent', 'utf8', 'UTF-8', 'latin_1', 'iso-8859-15', 'big5', 'oem', '']
for _i, _c in enumerate(_CODECS):
    _decl = [b'# -*- coding: %s -*-\n', b'# vim: set fileencoding=%s :\n', b'#!/usr/bin/python\n# coding=%s\n', b'\n# coding: %s\n'][_i % 4] % _c.encode()
    RAW_FILES.append(('enc%d.py' % _i, _decl + [b'"""doc"""\nclass E: pass\n', b'x = "caf\xe9 \xff"\n', b'"""\xc3\xa9"""\ndef f(): pass\n'][_i % 3]))
RAW_FILES.append(('bom_cookie.py', b'\xef\xbb\xbf# coding: latin-1\nx = 1\n'))
RAW_FILES.append(('longline.py', b'x = "' + b'a' * 200000 + b'"\n'))
RAW_FILES.append(('bigint.py', b'X = 0x' + b'F' * 5000 + b'\ndef f(a=0b' + b'1' * 20000 + b', b=-0o' + b'7' * 6000 + b'): pass\nZ = [0x' + b'1' * 4000 + b', 1]\n'))
RAW_FILES.append(('bigdec.py', b'Y = ' + b'9' * 5000 + b'\n'))   # refused by the parser itself
RAW_FILES.append(('deepann.py', b'x: "' + b'-' * 3000 + b'1" = 1\ndef f(a: "' + b'(' * 300 + b'int' + b')' * 300 + b'", b: "' + b'[' * 400 + b']' * 400 + b'"): pass\nclass C("' + b'~' * 3000 + b'B"): pass\n'))
# syntax of recent Python versions (accepted by the running interpreter or not: either way the run goes on): type statements and
# type parameters at module, class and function level, named like other things, match statements, exception groups
RAW_FILES.append(('pep695.py', b'type Vector = list[float]\n"""doc of the alias"""\ntype Pair[T] = tuple[T, T]\nclass Box[T]:\n    """box"""\n    type Inner = list[T]\n    """inner"""\n'
                  b'    def get[U](self, x: U) -> T:\n        """get"""\n        type Local = dict[str, U]\n        return x\n    type get = int\n'
                  b'def first[T: (int, str), *Ts, **P](x: T) -> T:\n    type InFunc = list[T]\n    return x\nasync def later[T](x: T) -> T:\n    type InAsync = T\n    return x\n'
                  b'if True:\n    type Guarded = int\ntry:\n    type Tried = int\nexcept Exception:\n    type Handled = str\n'))
RAW_FILES.append(('pep695odd.py', b'type __all__ = int\ntype __docformat__ = str\nclass Base:\n    def m(self): pass\nclass Sub(Base):\n    type m = int\n    type __init__ = None\n'
                  b'def f():\n    class L:\n        type T = int\n    type f = int\nlambda: 0\n'))
RAW_FILES.append(('newsyntax.py', b'def f(cmd, /, x, *, y):\n    match cmd:\n        case [a, *rest] if a:\n            def inner(): pass\n        case {"k": v, **kw}:\n            class K: pass\n        case _:\n            z = 1\n'
                  b'try:\n    pass\nexcept* ValueError as eg:\n    H = 1\nif (n := 10) > 5:\n    W = n\nwith (open("a") as fa, open("b") as fb):\n    V = 2\n'))
RAW_FILES.append(('overload_deco.py', 'from typing import overload\ndef deco(*a):\n    return lambda f: f\n@overload\n@deco("Obsol\u00e8te\u00a0: x")\ndef f(a: int) -> int: ...\n'
                  '@overload\n@deco("y\u00a0z")\ndef f(a: str) -> str: ...\ndef f(a):\n    return a\nclass C:\n    @overload\n    @deco("nb\u00a0sp")\n    def m(self, a: int) -> int: ...\n'
                  '    @overload\n    def m(self, a: str) -> str: ...\n    @deco("q\u00a0r")\n    def m(self, a):\n        return a\n    @property\n    @deco("p\u00a0q")\n    def p(self): pass\n'.encode('utf-8')))
RAW_FILES.append(('implements_nonclass.py', b'from zope.interface import Interface, implementer, classImplements\nclass IFoo(Interface):\n    def m():\n        """im"""\ndef some_function(): pass\nCONST = 1\n'
                  b'@implementer(some_function, IFoo, CONST, IFoo.m)\nclass A:\n    def m(self): pass\nclass B(A):\n    def m(self): pass\nclassImplements(B, some_function)\n'))
RAW_FILES.append(('augassign_alias.py', b'from typing import TypeAlias\nX = 1\nX += "(("\nX: TypeAlias\nY = "a"\nY += "b"\nY: TypeAlias = "int"\nclass K:\n    Z = 1\n    Z *= "]]"\n    Z: TypeAlias\n'))

# whole projects (files, roots, options) that once aborted the run
FIXED_PROJECTS: List[Tuple[Dict[str, str], List[str], List[str]]] = [
    # a root module listed in __all__ of a package that imports it through one of its modules
    ({'pkg/__init__.py': 'from .origin import other\n__all__ = ["other"]\n', 'pkg/origin.py': 'import other\n', 'other.py': 'X = 1\n'}, ['pkg', 'other.py'], []),
    ({'pkg/__init__.py': 'import other\n__all__ = ["other"]\n', 'other.py': 'X = 1\n'}, ['other.py', 'pkg'], []),
    ({'pkg/__init__.py': 'import otherpkg\nfrom otherpkg import sub\n__all__ = ["otherpkg", "sub"]\n', 'otherpkg/__init__.py': '', 'otherpkg/sub.py': 'X = 1\n'}, ['pkg', 'otherpkg'], []),
    # fields of a package / class docstring that name a submodule, a class, a function
    ({'pkg/__init__.py': '"""\n@var sub: a submodule\n@type sub: module\n@var K: a class\n@var f: a function\n"""\nother = 1\nclass K:\n    """\n    @ivar m: a method\n    @cvar N: a nested class\n    """\n    def m(self): pass\n    class N: pass\ndef f(): pass\n',
      'pkg/sub.py': 'x = 1\n'}, ['pkg'], ['--mod-member-order=source', '--cls-member-order=source']),
    ({'pkg/__init__.py': '"""\n:var sub: a submodule\n"""\nother = 1\n', 'pkg/sub.py': 'x = 1\n'}, ['pkg'], ['--docformat=restructuredtext', '--mod-member-order=source']),
]

PRIVACY_PATTERNS = ['**', '**.*', '*', 'pkg.**', '**.ghost', '**.C', '**.Base', '**.f', '**.m', '**.x', '**._p', '**.D.*', 'pkg.dep', 'pkg.mod', 'pkg.sub', 'pkg.sub.**', 'pkg.mod.*', 'pkg.dep.Base', 'pkg.dep.Base.m',
                    'dep', 'dep.Base', 'mod.C', 'pkg', '**.I', '**.__init__', '**.E', '*.mod.C.f', '**.UPPER', 'pkg.sib', '**.g', '**.[CD]', 'pkg.*.?']

DEP_SRC = '''"""dep module"""
__all__ = ['Base', 'X', 'I']
from zope.interface import Interface
class Base:
    """base doc"""
    def m(self):
        """m doc"""
    cv = 1
class I(Interface):
    """iface"""
X = 1
Y = 2
'''


DEEP = 150


def _ast_depth(tree: ast.AST) -> int:
    best = 0
    stack = [(tree, 1)]
    while stack:
        node, d = stack.pop()
        if d > best:
            best = d
        for c in ast.iter_child_nodes(node):
            stack.append((c, d + 1))
    return best


def _enc(v: Union[str, bytes]) -> Any:
    return v if isinstance(v, str) else {'hex': v.hex()}


def _dec(v: Any) -> Union[str, bytes]:
    return v if isinstance(v, str) else bytes.fromhex(v['hex'])


ODD_ROOT_NAMES = ['index', 'classIndex', 'moduleIndex', 'nameIndex', 'undoccedSummary', 'objects', 'apidocs', 'searchindex', 'fullsearchindex', 'search', 'lunr', 'pydoctor', 'ajax',
                  'bootstrap', '__main__', 'setup', 'Index', 'INDEX', 'mod', 'dep', 'fonts', 'extra', 'sidebartoggle', 'all', 'test', '_private', '__dunder__', 'é']


RESERVED_PAGE_NAMES = ['index', 'classIndex', 'moduleIndex', 'nameIndex', 'undoccedSummary']


def st_tree(clean: bool = False, reserved: Optional[bool] = None):
    """clean=True: only grammar-generated (parsable) modules, no raw byte files, no size class: used by the
    rendering checks (C10-C12, C17, C18) which need projects, not robustness inputs."""
    from hypothesis import strategies as st
    if reserved is None:
        reserved = not clean
    odd_names = [n for n in ODD_ROOT_NAMES if reserved or n not in RESERVED_PAGE_NAMES]
    if clean:
        src = pysource.modules()
    else:
        texts = real_texts()
        big = pysource.big_sources()
        src = st.one_of(pysource.modules(), pysource.modules(), pysource.modules(), pysource.mutated(texts),
                        pysource.mutated(texts), st.sampled_from(big))

    @st.composite
    def t(draw):
        layout = draw(st.sampled_from(['flat', 'package', 'package', 'package', 'roots', 'oddnames']))
        files: Dict[str, Any] = {}
        roots: List[str]
        if layout == 'oddnames':
            # root modules / packages whose names coincide with files pydoctor writes itself, or are otherwise special
            names = draw(st.lists(st.sampled_from(odd_names), min_size=1, max_size=3, unique=True))
            roots = []
            for nm in names:
                if draw(st.integers(0, 3)) == 0:
                    files[nm + '/__init__.py'] = draw(src)
                    files[nm + '/' + draw(st.sampled_from(odd_names)) + '.py'] = draw(src)
                    roots.append(nm)
                else:
                    files[nm + '.py'] = draw(src)
                    roots.append(nm + '.py')
        elif layout == 'flat':
            files['mod.py'] = draw(src)
            files['dep.py'] = DEP_SRC if draw(st.booleans()) else draw(src)
            roots = ['mod.py', 'dep.py']
            if draw(st.booleans()):
                roots.reverse()
        else:
            files['pkg/__init__.py'] = draw(st.one_of(st.just('"""pkg"""\n'), src))
            files['pkg/mod.py'] = draw(src)
            files['pkg/dep.py'] = DEP_SRC if draw(st.booleans()) else draw(src)
            if draw(st.booleans()):
                files['pkg/sib.py'] = draw(src)
            if draw(st.booleans()):
                files['pkg/sub/__init__.py'] = draw(st.one_of(st.just(''), src))
                files['pkg/sub/mod.py'] = draw(src)
            if draw(st.integers(0, 5)) == 0:
                files['pkg/mod/__init__.py'] = '"""package shadowing module mod"""\n'
            roots = ['pkg']
            if layout == 'roots':
                files['dep.py'] = DEP_SRC
                files['other/__init__.py'] = draw(src)
                roots = draw(st.permutations(['pkg', 'dep.py', 'other']))
        for name, data in ([] if clean else draw(st.lists(st.sampled_from(RAW_FILES), max_size=2, unique_by=lambda x: x[0]))):
            d = 'pkg/' if layout not in ('flat', 'oddnames') else ''
            files[d + name] = {'hex': data.hex()}
            if layout in ('flat', 'oddnames') and name.endswith('.py'):
                roots = list(roots) + [name]
        args = ['--docformat=' + draw(st.sampled_from(DOCFORMATS))]
        if draw(st.integers(0, 3)) == 0:
            args.append('--process-types')
        th = draw(st.sampled_from(['classic', 'classic', 'readthedocs', 'base']))
        if th != 'classic':
            args.append('--theme=' + th)
        if draw(st.booleans()):
            args.append('--project-name=proj')
        if draw(st.integers(0, 3)) == 0:
            args.append('-W')
        if draw(st.integers(0, 5)) == 0:
            args.append('--html-viewsource-base=http://example.org/src')
        if draw(st.integers(0, 5)) == 0:
            args += ['--pyval-repr-maxlines=2', '--pyval-repr-linelen=10']
        if draw(st.integers(0, 7)) == 0:
            args.append('--no-sidebar')
        if not clean and draw(st.integers(0, 7)) == 0:
            # every root is put below a made-up package (the generated sources import through it now and then)
            args.append('--prepend-package=' + draw(st.sampled_from(['lib.pack', 'lib', 'pkg', 'a.b.c'])))
        if not clean and draw(st.integers(0, 9)) == 0:
            args += draw(st.sampled_from([['--sidebar-expand-depth=1'], ['--sidebar-toc-depth=1'], ['--sidebar-expand-depth=9', '--sidebar-toc-depth=0'],
                                          ['--project-version=1.0<b>'], ['--project-url=javascript:x'], ['--html-viewsource-base=http://x/y', '--project-base-dir=.'], ['--verbose'], ['--template-dir=.'], ['--buildtime=2020-01-01 00:00:00'], ['--pyval-repr-maxlines=0', '--pyval-repr-linelen=0']]))
        if clean:
            for lv, pat in draw(st.lists(st.tuples(st.sampled_from(['HIDDEN', 'HIDDEN', 'PRIVATE', 'PUBLIC']), st.sampled_from(PRIVACY_PATTERNS)), max_size=3)):
                args.append('--privacy=%s:%s' % (lv, pat))
        elif draw(st.integers(0, 3)) == 0:
            for lv, pat in draw(st.lists(st.tuples(st.sampled_from(['HIDDEN', 'HIDDEN', 'PRIVATE', 'PUBLIC']), st.sampled_from(PRIVACY_PATTERNS)), min_size=1, max_size=3)):
                args.append('--privacy=%s:%s' % (lv, pat))
        return {'files': files, 'roots': list(roots), 'args': args, 'meta': draw(st.integers(0, 3)) == 0}
    return t()


def _dump(system: Any, skip_prefixes: Tuple[str, ...] = ()) -> Dict[str, Any]:
    d = {}
    for k, o in system.allobjects.items():
        if any(k == p or k.startswith(p + '.') for p in skip_prefixes):
            continue
        d[k] = (type(o).__name__, str(o.kind), o.docstring, sorted(o.contents))
    return d


SUMMARY_FILES = ['index.html', 'objects.inv', 'searchindex.json', 'fullsearchindex.json', 'all-documents.html',
                 'classIndex.html', 'moduleIndex.html', 'nameIndex.html', 'undoccedSummary.html', 'apidocs.css']


def check_tree(case: Dict[str, Any]) -> Tuple[List[Tuple[str, str]], Dict[str, Any]]:
    from pydoctor import model
    files = {k: _dec(v) for k, v in case['files'].items()}
    info: Dict[str, Any] = {'parse_ok': 0, 'parse_fail': 0, 'defs': 0, 'depth': 0}
    for rel, content in files.items():
        if not rel.endswith('.py'):
            continue
        try:
            b = content if isinstance(content, bytes) else content.encode('utf-8', 'surrogatepass')
            tree = ast.parse(b)
            info['parse_ok'] += 1
            info['defs'] += sum(isinstance(n, (ast.ClassDef, ast.FunctionDef, ast.AsyncFunctionDef)) for n in ast.walk(tree))
            info['depth'] = max(info['depth'], _ast_depth(tree))
        except RecursionError:
            info['parse_fail'] += 1
            info['depth'] = 10 ** 6
        except Exception:
            info['parse_fail'] += 1
    out: List[Tuple[str, str]] = []
    with pydoctor_run(files, case['roots'], case['args'], timeout=TIMEOUT) as r:
        if r.timeout:
            return [('hang', 'driver.main did not finish within %d s' % TIMEOUT)], info
        if r.exc is not None:
            sig = 'crash:%s@%s' % (type(r.exc).__name__, r.frame)
            if isinstance(r.exc, RecursionError) and info['depth'] > DEEP:
                # input predicate: some expression/statement is nested deeper than DEEP levels
                sig = 'recursion-on-deep-nesting'
            return [(sig, 'uncaught %s\n%s' % (type(r.exc).__name__, r.tb[-1800:]))], info
        if r.code not in (0, 2, 3):
            return [('exit-status', 'exit status %r; stderr: %s' % (r.code, r.stderr[-400:]))], info
        s = r.system
        info['code'] = r.code
        # (b) every module analysed or reported with its path
        for o in list(s.allobjects.values()):
            if isinstance(o, model.Module) and o.source_path is not None:
                if o.state is not model.ProcessingState.PROCESSED:
                    sp = str(o.source_path)
                    reported = any(('cannot parse' in line and sp in line) for line in r.stdout.splitlines())
                    if not reported:
                        out.append(('module-not-analysed', 'module %s (%s) is in state %s and no "cannot parse" message names its file' % (o.fullName(), sp, o.state)))
        # (c) output inventory
        for f in SUMMARY_FILES:
            if not os.path.exists(os.path.join(r.out, f)):
                out.append(('missing-output', 'output file %s was not written' % f))

        def walk(o: Any) -> None:
            if not o.isVisible:
                return
            if o.documentation_location is model.DocLocation.OWN_PAGE:
                if not os.path.exists(os.path.join(r.out, unquote(o.url))):
                    out.append(('missing-output', 'no page %r for visible %s' % (o.url, o.fullName())))
            for c in o.contents.values():
                walk(c)
        for root in s.rootobjects:
            walk(root)
        for f in os.listdir(r.out):
            if f.endswith('.html') and os.path.exists(os.path.join(r.out, f)) and os.path.getsize(os.path.join(r.out, f)) == 0:
                out.append(('missing-output', 'page %s is empty' % f))
        base_dump = _dump(s) if case.get('meta') else None
        stdout1 = r.stdout
    # (d) metamorphic: an unparsable file that nobody imports is inert
    if base_dump is not None and not out and not any(a.startswith('--prepend-package') for a in case['args']):
        files2 = dict(files)
        d = 'pkg/' if any(k.startswith('pkg/') for k in files) else ''
        extra = d + 'zz_broken_extra.py'
        files2[extra] = 'def broken(:\n    "never parses"\n'
        roots2 = list(case['roots']) + ([extra] if not d else [])
        with pydoctor_run(files2, roots2, case['args'], timeout=TIMEOUT) as r2:
            if r2.exc is not None or r2.timeout:
                out.append(('broken-file-not-inert', 'adding an unparsable file makes the run fail: %s' % (r2.tb[-600:] or 'timeout')))
            else:
                modname = ('pkg.' if d else '') + 'zz_broken_extra'
                d2 = _dump(r2.system, (modname,))
                b2 = dict(base_dump)
                # the container lists the extra module
                for k in list(d2):
                    t, kind, doc, cont = d2[k]
                    d2[k] = (t, kind, doc, [c for c in cont if c != 'zz_broken_extra'])
                if d2 != b2:
                    diff = [k for k in set(d2) | set(b2) if d2.get(k) != b2.get(k)][:5]
                    out.append(('broken-file-not-inert', 'objects differ after adding an unparsable, unimported file: %s' % diff))
                if 'zz_broken_extra.py' not in r2.stdout or 'cannot parse' not in r2.stdout:
                    out.append(('broken-file-not-reported', 'no "cannot parse" message names zz_broken_extra.py'))
    seen = set()
    res = []
    for sig, msg in out:
        if sig not in seen:
            seen.add(sig)
            res.append((sig, msg))
    return res, info


def _minimise(case: Dict[str, Any], sig: str, budget: int = 120) -> Dict[str, Any]:
    """Greedy delta debugging over files and over lines of text files; keeps the same signature."""
    runs = [0]

    def fails(c: Dict[str, Any]) -> bool:
        runs[0] += 1
        try:
            return any(s == sig for s, _m in check_tree(c)[0])
        except Exception:
            return False

    cur = {'files': dict(case['files']), 'roots': list(case['roots']), 'args': list(case['args']), 'meta': case.get('meta', False)}
    # drop arguments
    for a in list(cur['args']):
        if runs[0] >= budget:
            break
        c = dict(cur, args=[x for x in cur['args'] if x != a])
        if fails(c):
            cur = c
    # drop files
    for f in sorted(cur['files']):
        if runs[0] >= budget:
            break
        if f.endswith('__init__.py') and f.count('/') == 1:
            continue
        c = dict(cur, files={k: v for k, v in cur['files'].items() if k != f}, roots=[r for r in cur['roots'] if r != f])
        if c['roots'] and fails(c):
            cur = c
    # shrink text files by line chunks
    for f in sorted(cur['files']):
        v = cur['files'][f]
        if not isinstance(v, str):
            continue
        lines = v.split('\n')
        chunk = max(1, len(lines) // 2)
        while chunk >= 1 and runs[0] < budget:
            i = 0
            changed = False
            while i < len(lines) and runs[0] < budget:
                cand = lines[:i] + lines[i + chunk:]
                c = dict(cur, files=dict(cur['files'], **{f: '\n'.join(cand)}))
                if fails(c):
                    lines = cand
                    cur = c
                    changed = True
                else:
                    i += chunk
            if chunk == 1 and not changed:
                break
            chunk = chunk // 2 if chunk > 1 else (1 if changed else 0)
    return cur


def plan(tier: str, seed: int, scale: float = 1.0) -> List[Any]:
    n = ncpu()
    total = int((1600 if tier == 'quick' else 25000) * scale)
    shards = n * (1 if tier == 'quick' else 4)
    items: List[Any] = [{'kind': 'hyp', 'n': max(1, total // shards), 'seed': seed * 1000 + i} for i in range(shards)]
    items.append({'kind': 'fixed'})
    if tier == 'thorough':
        for i in range(n):
            items.append({'kind': 'atheris', 'seconds': int(300 * scale), 'seed': seed * 1000 + 300 + i})
    return items


def work(item: Dict[str, Any]) -> Acc:
    if item['kind'] == 'atheris':
        from ..core import run_fuzz_item
        return run_fuzz_item(ID, 'c01', item['seconds'], item['seed'])
    acc = Acc()
    buckets: Dict[str, Dict[str, Any]] = {}

    def run_case(c: Dict[str, Any]) -> None:
        d, info = check_tree(c)
        nt = (info['parse_ok'] >= 1 and info['defs'] >= 1) or (info['parse_ok'] >= 1 and info['parse_fail'] >= 1)
        classes = ['exit-%s' % info.get('code'), 'parse-fail-present' if info['parse_fail'] else 'all-parse']
        classes += [a.split('=')[0] + '=' + a.split('=')[1] for a in c['args'] if a.startswith('--docformat')]
        if c.get('meta'):
            classes.append('metamorphic-pair')
        acc.case(key=(c['files'], c['args']), nontrivial=nt,
                 sample={'files': {k: trunc(v, 160) for k, v in c['files'].items()}, 'roots': c['roots'], 'args': c['args']}, classes=classes)
        from .. import findings
        for sig, msg in d:
            if findings.is_open(ID, sig):
                acc.excluded[sig] += 1
            elif sig == 'hang':
                acc.inconclusive += 1
                buckets.setdefault(sig, {'sig': sig, 'msg': msg, 'case': c})
            else:
                size = sum(len(str(v)) for v in c['files'].values())
                if sig not in buckets or size < buckets[sig]['size']:
                    buckets[sig] = {'sig': sig, 'msg': msg, 'case': c, 'size': size}

    if item['kind'] == 'fixed':
        # deterministic trees: every raw file and every size-class source once
        for name, data in RAW_FILES:
            run_case({'files': {'pkg/__init__.py': '"""pkg"""\n', 'pkg/good.py': 'class Good:\n    """ok"""\n', 'pkg/' + name: {'hex': data.hex()}},
                      'roots': ['pkg'], 'args': ['--docformat=epytext'], 'meta': False})
        for files_, roots_, args_ in FIXED_PROJECTS:
            run_case({'files': dict(files_), 'roots': list(roots_), 'args': (['--docformat=epytext'] if not any(a.startswith('--docformat') for a in args_) else []) + list(args_), 'meta': False})
        for i, srcb in enumerate(pysource.big_sources()):
            run_case({'files': {'pkg/__init__.py': '', 'pkg/good.py': 'class Good:\n    """ok"""\n', 'pkg/big.py': srcb},
                      'roots': ['pkg'], 'args': ['--docformat=' + DOCFORMATS[i % 5]], 'meta': False})
    else:
        hyp_run(acc, st_tree(), run_case, item['n'], item['seed'], shrink=False)
    for sig, b in buckets.items():
        small = _minimise(b['case'], sig) if sig != 'hang' else b['case']
        acc.violations.append({'sig': sig, 'msg': b['msg'], 'case': small})
    return acc


def replay(case: Dict[str, Any]) -> List[Tuple[str, str]]:
    return check_tree(case)[0]
