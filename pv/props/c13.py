"""C13 - privacy rules mean what the manual says.

Sub-checks
  enum   exhaustive: all well-formed patterns of <= L tokens x all names of <= M chars over a
         small alphabet, pydoctor.qnmatch.qnmatch vs the independent matcher pv.oracle.qnref
  hyp    random longer patterns/names (patterns derived from names so that matches are frequent)
  rules  rule lists (exact names + patterns x 3 levels) applied to a small fixed system,
         Documentable.privacyClass / isVisible vs the precedence model, cold and warm cache,
         rules parsed by utils.parse_privacy_tuple
"""
from __future__ import annotations

import itertools
from typing import Any, Dict, List, Sequence, Tuple

from ..core import Acc, Violation, hyp_run, judge, ncpu
from ..oracle import qnref

ID = "C13"
RULE = ("enum: every (pattern, name) pair with pattern = sequence of <=L tokens from "
        "{a,b,_,.,?,*,**,[ab],[!a],[._]} without adjacent star tokens and name = string of 1..M chars over "
        "{a,b,_,.}; pairs are distinct by construction and non-trivial when the pattern has a wildcard/set token. "
        "hyp: random dotted names with patterns derived from them; distinct by (pattern,name) hash. "
        "rules: rule lists over a pool of exact names and patterns x {PUBLIC,PRIVATE,HIDDEN}; non-trivial when "
        ">=1 rule matches >=1 object; distinct by rule-list hash.")
ASSUMPTIONS = [
    "bracket sets are non-empty and contain none of - ] [ ^ \\ ! (undefined in the manual)",
    "star runs longer than two are not generated (the manual defines * and ** only)",
    "objects whose kind is None are outside the statement",
]
ALL_EXHAUSTIVE = False

TOKENS: List[Tuple] = [('lit', 'a'), ('lit', 'b'), ('lit', '_'), ('lit', '.'), ('q',), ('star',), ('dstar',),
                       ('set', 'ab', False), ('set', 'a', True), ('set', '._', False)]
ALPHA = 'ab_.'


def _names(maxlen: int) -> List[str]:
    out = []
    for n in range(1, maxlen + 1):
        out.extend(''.join(p) for p in itertools.product(ALPHA, repeat=n))
    return out


def _patterns(maxtok: int):
    for n in range(1, maxtok + 1):
        for p in itertools.product(TOKENS, repeat=n):
            if qnref.well_formed(p):
                yield p


def _check_pair(toks: Sequence[Tuple], name: str) -> List[Tuple[str, str]]:
    from pydoctor import qnmatch
    pat = qnref.pat_str(toks)
    got = bool(qnmatch.qnmatch(name, pat))
    want = qnref.match(toks, name)
    if got != want:
        return [("qnmatch-disagrees", "qnmatch(%r, %r) = %r, the documented meaning gives %r" % (name, pat, got, want))]
    return []


# ---------------------------------------------------------------- rules on a small system

_SHAPES = [''.join(p_) for k_ in range(1, 6) for p_ in itertools.product('_a', repeat=k_)]
SYSTEM_SRC = {
    # (modname, parent, is_package): source
    ('a', None, True): "class K:\n    def m(self): pass\n",
    ('b', 'a', False): ("class C:\n    '''doc'''\n    def m(self): pass\n    def _p(self): pass\n"
                        "    def __init__(self): pass\n    class N:\n        x = 1\n"
                        "def f(): pass\ndef _g(): pass\nv = 1\n"),
    ('_b', 'a', False): "def g(): pass\nclass _H:\n    def a(self): pass\n",
    ('__main__', 'a', False): "def run(): pass\n",
    # every identifier made of underscores and one letter, up to five characters: as functions and as class attributes (the
    # default rule is about the shape of the name: leading underscore, dunder or not)
    ('shapes', 'a', False): (''.join('def %s(): pass\n' % n for n in _SHAPES) + 'class Z:\n' + ''.join('    %s = 1\n' % n for n in _SHAPES)),
}

RULE_POOL = ['a', 'a.b', 'a._b', 'a.b.C', 'a.b.C.m', 'a.b.C._p', 'a.b._g', 'a.b.C.N.x',
             '**', '*', 'a.*', 'a.**', '**._*', 'a.b.C.*', '*.b.*', '**.__*__', 'a.?', 'a.[b_]*', 'a.[!_]', '**.m', 'a.?b.**']
LEVELS = ['PUBLIC', 'PRIVATE', 'HIDDEN']


def _parse_pat(pat: str) -> List[Tuple]:
    toks: List[Tuple] = []
    i = 0
    while i < len(pat):
        c = pat[i]
        if c == '*':
            if pat[i:i + 2] == '**':
                toks.append(('dstar',))
                i += 2
                continue
            toks.append(('star',))
        elif c == '?':
            toks.append(('q',))
        elif c == '[':
            j = pat.index(']', i)
            body = pat[i + 1:j]
            neg = body.startswith('!')
            toks.append(('set', body[1:] if neg else body, neg))
            i = j
        else:
            toks.append(('lit', c))
        i += 1
    return toks


_sys_cache: Dict[str, Any] = {}


def _system():
    if 's' in _sys_cache:
        return _sys_cache['s']
    from pydoctor import model
    s = model.System()
    s.options.verbosity = -10
    b = s.systemBuilder(s)
    for (name, parent, ispkg), src in SYSTEM_SRC.items():
        b.addModuleString(src, name, parent_name=parent, is_package=ispkg)
    b.buildModules()
    _sys_cache['s'] = s
    return s


def _check_rules(rules: Sequence[Tuple[str, str]], order_seed: int = 0) -> List[Tuple[str, str]]:
    """rules: [(LEVEL, pattern)], in command-line order."""
    from pydoctor import model, utils
    s = _system()
    parsed = []
    for i, (lv, pat) in enumerate(rules):
        lvs = lv if i % 2 == 0 else lv.lower()
        parsed.append(utils.parse_privacy_tuple("%s:%s" % (lvs, pat), '--privacy'))
    s.options.privacy = parsed
    s._privacyClassCache.clear()
    ref_rules = [(lv, pat, _parse_pat(pat)) for lv, pat in rules]
    objs = sorted(s.allobjects.values(), key=lambda o: o.fullName())
    if order_seed:
        k = order_seed % len(objs)
        objs = objs[k:] + objs[:k]
        if order_seed % 2:
            objs.reverse()
    out: List[Tuple[str, str]] = []
    for phase in ('cold', 'warm'):
        for o in objs:
            if o.kind is None:
                continue
            fn = o.fullName()
            want = qnref.privacy(fn, ref_rules)
            got = o.privacyClass.name
            if got != want:
                sig = 'module-named-__main__' if (isinstance(o, model.Module) and o.name == '__main__') else 'privacy-precedence'
                out.append((sig, "rules %r: %s is %s (%s cache), documented rules give %s" % (list(rules), fn, got, phase, want)))
                continue
            # visibility: hidden iff self or a container is HIDDEN
            anc = o
            hidden = False
            while anc is not None:
                if isinstance(anc, model.Module) and anc.name == '__main__':
                    pc = anc.privacyClass.name
                else:
                    pc = qnref.privacy(anc.fullName(), ref_rules)
                if pc == 'HIDDEN':
                    hidden = True
                anc = anc.parent
            if o.isVisible != (not hidden):
                out.append(('visibility', "rules %r: %s isVisible=%r but model says hidden=%r" % (list(rules), fn, o.isVisible, hidden)))
    # dedupe by sig
    seen = set()
    res = []
    for sig, msg in out:
        if sig not in seen:
            seen.add(sig)
            res.append((sig, msg))
    return res


def _rules_matching_something(rules: Sequence[Tuple[str, str]]) -> bool:
    s = _system()
    for lv, pat in rules:
        toks = _parse_pat(pat)
        if any(qnref.match(toks, n) for n in s.allobjects):
            return True
    return False


# ---------------------------------------------------------------- hypothesis strategies

def _st_name_and_pattern():
    from hypothesis import strategies as st
    seg_alpha = 'abcxyzABZ019_'
    special = ' +$(-|{^'
    seg = st.text(alphabet=seg_alpha, min_size=1, max_size=6)
    seg2 = st.text(alphabet=seg_alpha + special, min_size=1, max_size=4)
    name = st.lists(st.one_of(seg, seg, seg, seg2), min_size=1, max_size=5).map('.'.join)

    @st.composite
    def derived(draw):
        nm = draw(name)
        toks: List[Tuple] = []
        i = 0
        setalpha = 'abxyzAZ01_.'
        while i < len(nm):
            act = draw(st.integers(0, 9))
            c = nm[i]
            if act <= 3:
                toks.append(('lit', c)); i += 1
            elif act == 4:
                toks.append(('q',)); i += 1
            elif act == 5:
                extra = draw(st.text(alphabet=setalpha, max_size=3))
                # in-set only if the char can be written inside a set
                if c in setalpha:
                    toks.append(('set', ''.join(sorted(set(extra + c))), False))
                else:
                    toks.append(('set', ''.join(sorted(set(extra))) or 'a', True))
                i += 1
            elif act == 6:
                extra = draw(st.text(alphabet=setalpha, min_size=1, max_size=3))
                toks.append(('set', ''.join(sorted(set(extra))), True)); i += 1
            elif act in (7, 8):
                k = draw(st.integers(0, 6))
                if not toks or toks[-1][0] not in ('star', 'dstar'):
                    toks.append(('star',) if act == 7 else ('dstar',))
                    i += k
                else:
                    toks.append(('lit', c)); i += 1
            else:
                # perturbation: a wrong literal or a dropped char
                toks.append(('lit', draw(st.sampled_from(seg_alpha + '.'))))
                i += draw(st.integers(0, 2))
        if draw(st.booleans()) and toks and toks[-1][0] not in ('star', 'dstar'):
            toks.append(draw(st.sampled_from([('star',), ('dstar',), ('q',)])))
        return {'toks': [list(t) for t in toks], 'name': nm}

    return derived()


def _st_rules():
    from hypothesis import strategies as st
    rule = st.tuples(st.sampled_from(LEVELS), st.sampled_from(RULE_POOL))
    return st.fixed_dictionaries({'rules': st.lists(rule, min_size=3, max_size=7).map(lambda l: [list(r) for r in l]),
                                  'order': st.integers(0, 50)})


# ---------------------------------------------------------------- plan / work / replay

def plan(tier: str, seed: int, scale: float = 1.0) -> List[Any]:
    n = ncpu()
    L, M = (4, 4) if tier == 'quick' else (5, 5)
    items: List[Any] = [{'kind': 'enum', 'L': L, 'M': M, 'part': i, 'nparts': 4 * n} for i in range(4 * n)]
    hyp_n = int((20000 if tier == 'quick' else 400000) * scale)
    for i in range(n):
        items.append({'kind': 'hyp', 'n': hyp_n // n, 'seed': seed * 1000 + i})
    rl = 2 if tier == 'quick' else 3
    items += [{'kind': 'rules-enum', 'maxlen': rl, 'part': i, 'nparts': n} for i in range(n)]
    rn = int((3000 if tier == 'quick' else 60000) * scale)
    for i in range(n):
        items.append({'kind': 'rules-hyp', 'n': rn // n, 'seed': seed * 1000 + 500 + i})
    return items


def work(item: Dict[str, Any]) -> Acc:
    acc = Acc()
    kind = item['kind']
    if kind == 'enum':
        names = _names(item['M'])
        for idx, toks in enumerate(_patterns(item['L'])):
            if idx % item['nparts'] != item['part']:
                continue
            wild = any(t[0] != 'lit' for t in toks)
            nm = 0
            for name in names:
                d = _check_pair(toks, name)
                acc.evals += 1
                if wild:
                    acc.nontrivial_counted += 1
                if d:
                    case = {'kind': 'pair', 'toks': [list(t) for t in toks], 'name': name}
                    try:
                        judge(ID, acc, case, d)
                    except Violation as v:
                        acc.violations.append(v.as_dict())
                        return acc
                else:
                    nm += 1
            if idx % 997 == 0 and len(acc.samples) < 3:
                acc.samples.append({'pattern': qnref.pat_str(toks), 'names_tried': len(names), 'agreeing': nm})
        acc.exhaustive_parts.append("patterns<=%d tokens x names<=%d chars" % (item['L'], item['M']))
    elif kind == 'hyp':
        def body(c):
            toks = [tuple(t) for t in c['toks']]
            if not qnref.well_formed(toks):
                return
            want = qnref.match(toks, c['name'])
            acc.case(key=(qnref.pat_str(toks), c['name']), nontrivial=any(t[0] != 'lit' for t in toks),
                     sample={'pattern': qnref.pat_str(toks), 'name': c['name'], 'matches': want},
                     classes=['hyp-match' if want else 'hyp-nomatch'])
            judge(ID, acc, dict(c, kind='pair'), _check_pair(toks, c['name']))
        hyp_run(acc, _st_name_and_pattern(), body, item['n'], item['seed'])
    elif kind == 'rules-enum':
        pool = [(lv, p) for p in RULE_POOL for lv in LEVELS]
        idx = 0
        for n in range(0, item['maxlen'] + 1):
            for rules in itertools.product(pool, repeat=n):
                idx += 1
                if idx % item['nparts'] != item['part']:
                    continue
                nt = _rules_matching_something(rules)
                acc.case(key=rules, nontrivial=nt, distinct_by_construction=True,
                         sample=({'rules': rules} if idx % 501 == 0 else None), classes=['rules-len-%d' % n])
                d = _check_rules(rules)
                if d:
                    try:
                        judge(ID, acc, {'kind': 'rules', 'rules': [list(r) for r in rules], 'order': 0}, d)
                    except Violation as v:
                        acc.violations.append(v.as_dict())
                        return acc
        acc.exhaustive_parts.append("rule lists of length <=%d over %d rules" % (item['maxlen'], len(pool)))
    elif kind == 'rules-hyp':
        def body2(c):
            rules = [tuple(r) for r in c['rules']]
            acc.case(key=c, nontrivial=_rules_matching_something(rules), sample=c, classes=['rules-len-%d' % len(rules)])
            judge(ID, acc, dict(c, kind='rules'), _check_rules(rules, c['order']))
        hyp_run(acc, _st_rules(), body2, item['n'], item['seed'])
    return acc


def replay(case: Dict[str, Any]) -> List[Tuple[str, str]]:
    if case.get('kind') == 'rules':
        return _check_rules([tuple(r) for r in case['rules']], case.get('order', 0))
    return _check_pair([tuple(t) for t in case['toks']], case['name'])
