"""C09 - rendering a docstring keeps its text: nothing is lost, altered or reordered.

A structure-aware generator (pv/gen/docmodel.py) writes documents over unique word tokens and serialises them to
each docformat; the rendered HTML (flatten(format_docstring(obj)), parsed as XML) must contain
 (a) exactly the expected sequence of body tokens outside the field table,
 (b) every literal/doctest/code block character for character inside one <pre>,
 (c) for plaintext the docstring itself,
 (d) every field's tokens in a row of the field table under the right heading / next to its argument name (or on the
     page of the attribute the field documents), or a warning mentioning the field,
 (e) no error from the parser for a well-formed document.
"""
from __future__ import annotations

import re
import textwrap
import xml.dom.minidom
from typing import Any, Dict, List, Optional, Tuple

from ..core import Acc, Violation, hyp_run, judge, ncpu, trunc
from ..gen import docmodel
from ..sysutil import build

ID = "C09"
RULE = ("documents from the structure-aware generator: 1-5 blocks (paragraphs with inline runs, bullet/enumerated lists nested "
        "<=2, literal/doctest/code blocks, a section) + fields legal for the object kind (param/type/return/rtype/raise/keyword/"
        "ivar/cvar/note/see/since/author/unknown), serialised to epytext, reStructuredText, google, numpy, plaintext and attached "
        "to a function or a class. Non-trivial when the document has >=2 block kinds or >=1 field; distinct by hash of (document, format).")
ASSUMPTIONS = [
    "tokens are w<digits>q words, so sentence splitting, '::' handling and break-point insertion cannot create spurious differences",
    "generated block lines carry no trailing blanks (parsers legitimately strip them)",
    "google/numpy: only the fields their sections express (Args/Parameters, Returns, Raises, Attributes)",
]
FORMATS = ['epytext', 'restructuredtext', 'google', 'numpy', 'plaintext']
_TOK = re.compile(r'w\d+q')

LABELS = {'param': 'Parameters', 'keyword': 'Parameters', 'return': 'Returns', 'yield': 'Yields', 'raise': 'Raises', 'note': 'Note', 'see': 'See Also',
          'since': 'Present Since', 'author': 'Author'}


def source_for(doc: Dict[str, Any], fmt: str) -> Tuple[str, str]:
    text = docmodel.serialise(doc, fmt)
    pre = 'class Engine:\n    """a target for cross-references"""\n    def start(self):\n        """start"""\n'
    if doc['kind'] == 'class':
        return pre + 'class K:\n    %s\n    def __init__(self):\n        self.iv1 = 1\n        self.iv2 = 2\n    cv1 = 0\n' % repr(text), 'm.K'
    return pre + 'def f(a, b, c, **kw):\n    %s\n' % repr(text), 'm.f'


def _text(node: Any) -> str:
    if node.nodeType == node.TEXT_NODE:
        return node.data
    return ''.join(_text(c) for c in node.childNodes)


def _walk_outside_table(node: Any, out: List[str]) -> None:
    if node.nodeType == node.TEXT_NODE:
        out.append(node.data)
        return
    if node.nodeType == node.ELEMENT_NODE and node.tagName == 'table' and 'fieldTable' in node.getAttribute('class'):
        return
    for c in node.childNodes:
        _walk_outside_table(c, out)


def check_doc(case: Dict[str, Any]) -> Tuple[List[Tuple[str, str]], Dict[str, Any]]:
    from pydoctor import epydoc2stan
    from pydoctor.stanutils import flatten
    doc, fmt = case['doc'], case['fmt']
    src, name = source_for(doc, fmt)
    docstring_text = docmodel.serialise(doc, fmt)
    s = build([('m', None, False, src)], args=['--docformat=' + fmt])
    obj = s.allobjects[name]
    out: List[Tuple[str, str]] = []
    info = {'blocks': sorted({b['t'] for b in doc['blocks']}), 'fields': len(doc['fields'])}
    desc = '%s docstring\n%s\n' % (fmt, docstring_text)
    html = flatten(epydoc2stan.format_docstring(obj))
    try:
        dom = xml.dom.minidom.parseString('<root>%s</root>' % html)
    except Exception as e:
        return [('not-well-formed', '%s-> rendered HTML is not well-formed: %s' % (desc, e))], info
    msgs = [m for sec, m, th in s.msgs if th < 0]
    # (e) well-formed input must parse without error
    errs = [m for m in msgs if 'bad docstring' in m]
    if errs and fmt != 'plaintext':
        out.append(('parser-error-on-wellformed', '%s-> %s' % (desc, errs[:2])))
    # (c) plaintext
    if fmt == 'plaintext':
        pieces: List[str] = []
        _walk_outside_table(dom.documentElement, pieces)
        if ''.join(pieces) != obj.docstring:
            out.append(('plaintext-altered', '%s-> visible text %r' % (desc, ''.join(pieces))))
        return out, info
    # (a) body tokens
    pieces = []
    _walk_outside_table(dom.documentElement, pieces)
    got = _TOK.findall(''.join(pieces))
    want = docmodel.body_tokens(doc['blocks']) + (docmodel.seealso_tokens(doc) if fmt in ('google', 'numpy') else [])
    if got != want:
        lost = [t for t in want if t not in got]
        dup = sorted({t for t in got if got.count(t) > 1})
        extra = [t for t in got if t not in want]
        out.append(('body-text-changed', '%s-> body tokens differ: lost %s duplicated %s invented %s%s\nrendered %s' % (
            desc, lost[:6], dup[:6], extra[:6], '' if (lost or dup or extra) else ' (reordered)', trunc(html, 900))))
    # (a') "with inline and block markup removed and nothing else changed": no markup character is left in the running text
    def _outside_pre(node: Any, acc_: List[str]) -> None:
        if node.nodeType == node.TEXT_NODE:
            acc_.append(node.data)
            return
        if node.nodeType == node.ELEMENT_NODE and (node.tagName == 'pre' or (node.tagName == 'table' and 'fieldTable' in node.getAttribute('class'))):
            return
        for ch in node.childNodes:
            _outside_pre(ch, acc_)
    running: List[str] = []
    _outside_pre(dom.documentElement, running)
    rest = _TOK.sub('', ''.join(running))
    left = sorted({ch for ch in rest if ch in ('{}' if fmt == 'epytext' else '*`\\')})
    if left and not errs:
        out.append(('markup-residue', '%s-> markup characters %s are left in the visible text: %r' % (desc, left, trunc(''.join(running), 400))))
    # (b) pre blocks verbatim
    pres = [_text(p) for p in dom.getElementsByTagName('pre')]
    for blk in docmodel.pre_blocks(doc['blocks']):
        # block indentation is markup: compare modulo the common leading indentation and the framing newlines
        if not any(blk == textwrap.dedent(p).strip('\n') or blk == p.strip('\n') for p in pres):
            out.append(('block-not-verbatim', '%s-> block %r is not reproduced character for character; <pre> contents: %s' % (desc, blk, [trunc(p, 200) for p in pres])))
            break
    # (d) fields
    rows: List[Tuple[str, str, str, Any]] = []  # (current heading, first cell text, whole row text, row element)
    heading = ''
    for table in dom.getElementsByTagName('table'):
        if 'fieldTable' not in table.getAttribute('class'):
            continue
        for tr in table.getElementsByTagName('tr'):
            cells = [c for c in tr.childNodes if c.nodeType == c.ELEMENT_NODE]
            if 'fieldStart' in tr.getAttribute('class'):
                heading = _text(tr).strip()
                continue
            rows.append((heading, _text(cells[0]) if cells else '', _text(tr), tr))
    all_msgs = ' '.join(m for _s, m, _t in s.msgs)
    for f in doc['fields']:
        toks = f['words']
        ok = False
        why = ''
        if f['tag'] in ('ivar', 'cvar'):
            attr = s.allobjects.get('%s.%s' % (name, f['arg']))
            if attr is None:
                why = 'no attribute object %s.%s' % (name, f['arg'])
            else:
                ahtml = flatten(epydoc2stan.format_docstring(attr))
                ok = _TOK.findall(ahtml)[:len(toks)] == toks or all(t in ahtml for t in toks)
                if ok and f.get('type'):
                    from pydoctor.templatewriter.pages import attributechild  # noqa: F401
                    thtml = flatten(epydoc2stan.type2stan(attr) or '')
                    if not all(t in thtml for t in f['type']):
                        ok = False
                        why = 'type tokens %s missing from the type of %s (%r)' % (f['type'], f['arg'], thtml)
                elif not ok:
                    why = 'tokens %s missing from the documentation of attribute %s (%r)' % (toks, f['arg'], trunc(ahtml, 200))
        else:
            label = ('Unknown Field: ' + f['name']) if f['tag'] == 'unknown' else LABELS[f['tag']]
            if f.get('lit') and fmt != 'epytext':
                toks = toks + f['lit']['after']
            for h, first, whole, tr in rows:
                if h != label:
                    continue
                if _TOK.findall(whole) and all(t in whole for t in toks):
                    seq = [t for t in _TOK.findall(whole) if t in toks]
                    if seq != toks:
                        why = 'tokens reordered in row %r' % whole
                        break
                    if f['arg'] and f['tag'] in ('param', 'keyword') and f['arg'] not in first:
                        why = 'tokens of %s %s are in the row of %r' % (f['tag'], f['arg'], first)
                        break
                    if f['arg'] and f['tag'] == 'raise' and f['arg'] not in first:
                        why = 'tokens of raise %s are in the row of %r' % (f['arg'], first)
                        break
                    if f.get('lead') and fmt in ('epytext', 'restructuredtext') and (f['lead'] + toks[0]) not in whole:
                        why = 'the description was written %r but the row shows %r: leading characters of the text are gone' % (f['lead'] + ' '.join(toks), whole)
                        break
                    if f.get('type') and not all(t in first for t in f['type']):
                        why = 'type tokens %s are not next to %s (cell %r)' % (f['type'], f['arg'] or f['tag'], first)
                        break
                    if f.get('lit') and fmt != 'epytext':
                        blk = '\n'.join(f['lit']['lines'])
                        rpres = [_text(p) for p in tr.getElementsByTagName('pre')]
                        if not any(blk == textwrap.dedent(p).strip('\n') or blk == p.strip('\n') for p in rpres):
                            why = 'literal block %r of the field is not reproduced character for character; <pre> contents of the row: %r' % (blk, rpres)
                            break
                        if any(t in p for p in rpres for t in f['lit']['after']):
                            why = 'the paragraph after the literal block of the field ended up inside the block: %r' % (rpres,)
                            break
                    ok = True
                    break
            if not ok and not why:
                why = 'tokens %s appear in no row under %r; rows: %s' % (toks, label, [(h, trunc(w, 80)) for h, _f, w, _t in rows])
        if not ok:
            mentioned = (f['arg'] and ('"%s"' % f['arg'] in all_msgs or "'%s'" % f['arg'] in all_msgs)) or all(t in all_msgs for t in toks)
            if not mentioned:
                out.append(('field-lost', '%s-> field %s %s: %s' % (desc, f['tag'], f['arg'] or '', why)))
                break
    return out, info


def plan(tier: str, seed: int, scale: float = 1.0) -> List[Any]:
    n = ncpu()
    total = int((8000 if tier == 'quick' else 80000) * scale)
    shards = n if tier == 'quick' else 2 * n
    return [{'n': max(1, total // shards), 'seed': seed * 1000 + i} for i in range(shards)]


def work(item: Dict[str, Any]) -> Acc:
    from hypothesis import strategies as st
    acc = Acc()

    @st.composite
    def cases(draw):
        fmt = draw(st.sampled_from(FORMATS))
        kind = draw(st.sampled_from(['function', 'function', 'class']))
        fam = 'sections' if fmt in ('google', 'numpy') else 'markup'
        doc = draw(docmodel.documents(kind=kind, fmt_family=fam, epytext=(fmt == 'epytext')))
        return {'doc': doc, 'fmt': fmt}

    def body(c):
        d, info = check_doc(c)
        acc.case(key=c, nontrivial=len(info['blocks']) >= 2 or info['fields'] >= 1,
                 sample={'fmt': c['fmt'], 'docstring': docmodel.serialise(c['doc'], c['fmt'])},
                 classes=['fmt-' + c['fmt'], 'kind-' + c['doc']['kind']] + ['has-' + b for b in info['blocks']] + (['has-fields'] if info['fields'] else []))
        judge(ID, acc, c, d)
    hyp_run(acc, cases(), body, item['n'], item['seed'])
    return acc


def replay(case: Dict[str, Any]) -> List[Tuple[str, str]]:
    return check_doc(case)[0]
