"""C11 - every internal link leads to a page and anchor that exist.

Whole-output crawl (pv/oracle/crawl.py) of real runs over link-rich generated projects and grammar-generated trees x
privacy rules x themes x sidebar depth: every relative href/src and every url in all-documents.html must resolve to
an existing file and, with a fragment, to an anchor in it; every visible module/package/class has a file at the
address links use for it; every visible function/attribute has an anchor on its parent's page.
"""
from __future__ import annotations

import os
from typing import Any, Dict, List, Optional, Tuple
from urllib.parse import unquote

from ..core import Acc, REPO, Violation, hyp_run, judge, ncpu, trunc
from ..oracle import crawl
from ..run import pydoctor_run

ID = "C11"
RULE = ("link-rich generated projects (inheritance across modules, inherited docstrings with cross-references, overrides, re-exports, "
        "superseded duplicates, nested classes, private/dunder/non-ASCII names, interfaces) and grammar-generated trees, x docformat x "
        "privacy rule lists x theme x sidebar depth; real packages in the thorough tier. Non-trivial when the output has >=20 internal "
        "links with >=3 fragment links; distinct by hash of (files, args).")
ASSUMPTIONS = [
    "links are resolved as a browser does: fragment split off, path and fragment percent-decoded, symlinks followed",
    "absolute URLs (scheme or //) are external and not checked",
]


SUMMARY_PAGE_FILES = ('index.html', 'moduleIndex.html', 'classIndex.html', 'nameIndex.html', 'undoccedSummary.html', 'all-documents.html')


def classify_link(system: Any, page: str, link: Dict[str, Any], why: str) -> str:
    """Structural signature of a dead link: what kind of target it names."""
    from pydoctor import model
    target = link.get('title')
    val = link['value']
    tname = unquote(val.split('#')[0])[:-5] if val.split('#')[0].endswith('.html') else ''
    frag = unquote(val.split('#', 1)[1]) if '#' in val else ''
    cand = None
    if target and target in system.allobjects:
        cand = system.allobjects[target]
    elif tname:
        full = tname + ('.' + frag if frag else '')
        cand = system.allobjects.get(full) or system.allobjects.get(tname)
    if cand is not None:
        if not cand.isVisible:
            return 'link-to-hidden-object'
        if ' ' in cand.fullName():
            return 'link-to-superseded-duplicate'
        if any(ord(ch) > 127 for ch in cand.fullName()):
            return 'link-to-non-ascii-name'
    if tname and ' ' in tname:
        return 'link-to-superseded-duplicate'
    if any(ord(ch) > 127 for ch in unquote(val)):
        return 'link-to-non-ascii-name'
    if val.startswith('#'):
        return 'same-page-fragment-missing'
    return 'dead-link'


def check_output(case: Dict[str, Any]) -> Tuple[List[Tuple[str, str]], Dict[str, Any]]:
    from pydoctor import model
    from .c01 import _dec
    files = {k: _dec(v) for k, v in case['files'].items()}
    info: Dict[str, Any] = {'links': 0, 'fraglinks': 0}
    out: List[Tuple[str, str]] = []
    with pydoctor_run(files, case['roots'], case['args'], timeout=180) as r:
        if r.exc is not None or r.timeout or r.code not in (0, 2, 3):
            info['crashed'] = True
            return [], info
        s = r.system
        pages = crawl.read_dir(r.out)
        for name, pg in pages.items():
            info['links'] += sum(1 for l in pg.links if crawl.resolve(r.out, name, l['value'])[2])
            info['fraglinks'] += sum(1 for l in pg.links if '#' in l['value'] and crawl.resolve(r.out, name, l['value'])[2])
        for name, link, why in crawl.dead_links(r.out, pages):
            sig = classify_link(s, name, link, why)
            ctx = ' > '.join('%s.%s' % (t, '.'.join(c)) for t, c, _i in link['ctx'][-3:])
            out.append((sig, 'on %s: %s=%r (%s) inside %s: %s' % (name, link['attr'], link['value'], link.get('title'), ctx, why)))
        # every visible own-page object has its page; every visible member has its anchor
        for o in s.allobjects.values():
            if not o.isVisible:
                continue
            reach = o
            ok = True
            while reach.parent is not None:
                if reach.parent.contents.get(reach.name) is not reach:
                    ok = False
                    break
                reach = reach.parent
            url = o.url
            fname = unquote(url.split('#')[0])
            sigsuffix = ('superseded-duplicate' if not ok else ('non-ascii-name' if any(ord(c) > 127 for c in o.fullName()) else 'object'))
            if o.documentation_location is model.DocLocation.OWN_PAGE:
                if not os.path.exists(os.path.join(r.out, fname)):
                    out.append(('no-page-for-' + sigsuffix, 'visible %s %s has no page at %r (files: %s)' % (
                        type(o).__name__, o.fullName(), fname, sorted(f for f in os.listdir(r.out) if f.endswith('.html'))[:12])))
            else:
                frag = unquote(url.split('#', 1)[1]) if '#' in url else ''
                real = os.path.basename(os.path.realpath(os.path.join(r.out, fname)))
                pg = pages.get(real) or pages.get(fname)
                if pg is None:
                    if o.parent is not None and o.parent.isVisible:
                        out.append(('no-page-for-' + sigsuffix, 'page %r of the parent of visible %s does not exist' % (fname, o.fullName())))
                elif pg.dom is not None and frag not in pg.anchors:
                    out.append(('no-anchor-for-' + sigsuffix, 'visible %s %s has no anchor %r on %s' % (type(o).__name__, o.fullName(), frag, fname)))
        # input predicate of F46: a module/package/class whose page would be named like one of pydoctor's own summary pages
        clash = sorted(o.fullName() for o in s.allobjects.values() if o.documentation_location is model.DocLocation.OWN_PAGE and o.isVisible
                       and (o.fullName() + '.html') in SUMMARY_PAGE_FILES and not (o.fullName() == 'index' and len(s.rootobjects) == 1))
        if clash:
            info['summary_page_clash'] = clash
            out = [('page-named-like-summary-page', '%s [the project has %s, whose page shares its file name with a summary page]' % (msg, clash)) for _sig, msg in out]
    seen = set()
    res = []
    for sig, msg in out:
        if sig not in seen:
            seen.add(sig)
            res.append((sig, msg))
    return res, info


def real_package_cases() -> List[Dict[str, Any]]:
    cases = []
    for base, root in ((os.path.join(REPO, 'pydoctor/test/testpackages'), None),):
        if not os.path.isdir(base):
            continue
        for pkg in sorted(os.listdir(base)):
            d = os.path.join(base, pkg)
            if not os.path.isfile(os.path.join(d, '__init__.py')):
                continue
            files = {}
            for dp, dn, fn in os.walk(d):
                dn.sort()
                for f in sorted(fn):
                    if f.endswith('.py'):
                        try:
                            files[os.path.relpath(os.path.join(dp, f), base)] = open(os.path.join(dp, f), encoding='utf-8').read()
                        except Exception:
                            pass
            if files:
                cases.append({'files': files, 'roots': [pkg], 'args': ['--project-name=real']})
    # pydoctor documenting itself (without its tests)
    files = {}
    d = os.path.join(REPO, 'pydoctor')
    for dp, dn, fn in os.walk(d):
        dn[:] = sorted(x for x in dn if x not in ('test', '__pycache__'))
        for f in sorted(fn):
            if f.endswith('.py'):
                files[os.path.relpath(os.path.join(dp, f), REPO)] = open(os.path.join(dp, f), encoding='utf-8').read()
    cases.append({'files': files, 'roots': ['pydoctor'], 'args': ['--project-name=pydoctor', '--docformat=epytext']})
    return cases


def plan(tier: str, seed: int, scale: float = 1.0) -> List[Any]:
    n = ncpu()
    total = int((320 if tier == 'quick' else 4000) * scale)
    items: List[Any] = []
    for i in range(n):
        items.append({'kind': 'linkproj', 'n': max(1, total // (2 * n)), 'seed': seed * 1000 + i})
        items.append({'kind': 'trees', 'n': max(1, total // (2 * n)), 'seed': seed * 1000 + 100 + i})
    if tier == 'thorough':
        for i, c in enumerate(real_package_cases()):
            items.append({'kind': 'real', 'index': i})
    return items


def work(item: Dict[str, Any]) -> Acc:
    acc = Acc()
    from .. import findings

    def run(c: Dict[str, Any], label: str) -> None:
        d, info = check_output(c)
        if info.get('crashed'):
            acc.inconclusive += 1
            return
        acc.case(key=(c['files'], c['args']), nontrivial=info['links'] >= 20 and info['fraglinks'] >= 3,
                 sample={'files': {k: trunc(v, 100) for k, v in list(c['files'].items())[:6]}, 'args': c['args'], 'links': info['links']},
                 classes=[label] + ['feature-' + f for f in c.get('features', [])])
        judge(ID, acc, dict(c, kind='output'), d)
    if item['kind'] == 'linkproj':
        from ..gen import linkproj
        hyp_run(acc, linkproj.projects(), lambda c: run(c, 'linkproj'), item['n'], item['seed'])
    elif item['kind'] == 'trees':
        from .c01 import st_tree
        hyp_run(acc, st_tree(clean=True, reserved=True), lambda c: run(c, 'grammar-tree'), item['n'], item['seed'])
    else:
        c = real_package_cases()[item['index']]
        try:
            run(c, 'real-package')
        except Violation as v:
            v.case = {'kind': 'real', 'index': item['index']}
            acc.violations.append(v.as_dict())
    return acc


def replay(case: Dict[str, Any]) -> List[Tuple[str, str]]:
    if case.get('kind') == 'real':
        return check_output(real_package_cases()[case['index']])[0]
    return check_output(case)[0]
