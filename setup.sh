#!/bin/bash
# Offline, idempotent.  Makes sure the check interpreter has hypothesis; atheris (optional,
# thorough tier only) goes to /verif/.deps.
HERE="$(cd "$(dirname "${BASH_SOURCE[0]}")" && pwd)"
PY="${VERIF_PY:-/venv/bin/python}"
WH=/opt/veriftools/wheels
export PIP_NO_INDEX=1 PIP_DISABLE_PIP_VERSION_CHECK=1
"$PY" -c "import hypothesis" 2>/dev/null || "$PY" -m pip install --no-index --find-links "$WH" hypothesis || exit 1
mkdir -p "$HERE/.deps"
if ! PYTHONPATH="$HERE/.deps" "$PY" -c "import atheris" 2>/dev/null; then
  "$PY" -m pip install --no-index --find-links "$WH" --target "$HERE/.deps" atheris >/dev/null 2>&1 \
    || echo "setup: atheris not installable (coverage-guided stage will be skipped)"
fi
"$PY" -c "import hypothesis, pydoctor; print('setup ok: hypothesis', hypothesis.__version__)"
