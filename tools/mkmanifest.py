#!/usr/bin/env python3
"""Regenerates MANIFEST.json from the table below and validates it against the schema."""
import json
import os
import sys

HERE = os.path.dirname(os.path.dirname(os.path.abspath(__file__)))

# id -> (technique, level text, level note, design ref)
CHECKS = {
    "C13": ("exhaustive bounded enumeration + seeded hypothesis vs an independent reference matcher and precedence model",
            "Every (pattern, name) pair below the bound (quick: <=4 tokens x <=4 chars, thorough: <=5 x <=5) is compared "
            "with a matcher written from the manual; rule precedence is enumerated for all rule lists of length <=2 (quick) / <=3 "
            "(thorough) on a small system and sampled beyond. Decided below the bound, sampled above it.",
            "Trusts pv/oracle/qnref.py as the reading of the manual; bracket sets without - ] [ ^ \\ !; star runs of length <=2.",
            "DESIGN.md 5/C13"),
}

CHECKS.update({
    "C01": ("seeded hypothesis over a statement grammar, line/token mutation of real files and raw byte files, driving driver.main in-process; crash bucketing + delta debugging",
            "Totality of a whole run over generated source trees: no escaping exception, exit status in {0,2,3}, every module analysed or reported "
            "with its path, output inventory complete, unparsable unimported file is inert (metamorphic). Sampled, not exhaustive: absence is not established.",
            "Hang clause approximated by a 90 s alarm confirmed in a fresh process. Inputs restricted to trees pydoctor documents as acceptable (roots exist, packages have __init__.py).",
            "DESIGN.md 5/C01"),
    "C19": ("exhaustive bounded enumeration + seeded hypothesis vs an executable reading of the visitor docstrings; recording extensions on the real ASTBuilder",
            "Every ordered tree of <=4 (thorough <=5) nodes x every pruning assignment x 20 extension-timing sets is walked by the real Visitor.walkabout and the trace "
            "compared event by event with the documented contract; the real AST builder is walked over grammar-generated modules with recording extensions of all four timings "
            "and the scope stack is checked after every module. Decided below the bound, sampled above.",
            "Pruning raised by extensions or in depart_ is outside the statement; expression nodes entered through generic_visit (visit only, by its documentation) are not required to be left.",
            "DESIGN.md 5/C19"),
})

NOT_YET = {}


def main() -> int:
    props = [json.loads(l) for l in open(os.path.join(HERE, "properties.jsonl"))]
    checks = []
    na = []
    for p in props:
        pid = p["id"]
        if pid in CHECKS:
            tech, text, note, ref = CHECKS[pid]
            checks.append({
                "property_id": pid,
                "quick_cmd": "./check %s --tier quick" % pid,
                "thorough_cmd": "./check %s --tier thorough" % pid,
                "evidence_file": "evidence/%s.json" % pid,
                "replay_cmd_template": "./check %s --replay {path}" % pid,
                "engine": "pv",
                "level_claimed": {"category": "exploration", "text": text, "design_ref": ref},
                "level_note": note,
                "technique": tech,
            })
        else:
            na.append({"property_id": pid, "reason": NOT_YET.get(pid, "check not built yet in this revision (planned, see DESIGN.md section 5); nothing is claimed for it")})
    man = {
        "version": 1,
        "setup_cmd": "./setup.sh",
        "hooks": {
            "guard": "PYDOCTOR_VERIF",
            "enable": "no source hooks are needed: every observation point is reachable from outside (DESIGN.md 2.2); checks import the working tree via PYTHONPATH=$VERIF_REPO (default /repo)",
            "baseline_off_cmd": "cd /repo && /venv/bin/python -m pytest -ra -q -p no:cacheprovider --timeout=900 --continue-on-collection-errors",
            "source_commits": [],
            "add_only": True,
        },
        "engines": [{"name": "pv", "path": "pv/", "serves_properties": sorted(CHECKS),
                     "kind_free_text": "seeded hypothesis strategies / state machines, exhaustive bounded enumerators and atheris targets with explicit oracles; ./check <id> --tier quick|thorough"}],
        "checks": checks,
        "not_applicable": na,
        "notes": "All checks: exit 0 held / exit 1 + VIOLATION line / exit 2 harness error. Known findings: known_findings.json (never written at run time).",
    }
    out = os.path.join(HERE, "MANIFEST.json")
    with open(out, "w") as fh:
        fh.write(json.dumps(man, indent=1) + "\n")
    try:
        import jsonschema
        jsonschema.validate(man, json.load(open("/root/.vp/MANIFEST.schema.json")))
        for c in checks:
            ev = os.path.join(HERE, c["evidence_file"])
            if os.path.exists(ev):
                jsonschema.validate(json.load(open(ev)), json.load(open("/root/.vp/EVIDENCE.schema.json")))
        print("MANIFEST.json valid; %d checks, %d not_applicable" % (len(checks), len(na)))
    except ImportError:
        print("jsonschema not available; wrote without validation")
    return 0


if __name__ == "__main__":
    sys.exit(main())
