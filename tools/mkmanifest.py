#!/usr/bin/env python3
"""Regenerates MANIFEST.json from the table below and validates it against the schema."""
import json
import os
import sys

HERE = os.path.dirname(os.path.dirname(os.path.abspath(__file__)))

# id -> (technique, level text, level note, design ref)
CHECKS = {k: (v['technique'], v['level_text'], v['level_note'], v['design_ref'])
          for k, v in json.load(open(os.path.join(HERE, 'tools', 'manifest_table.json'))).items()}

NOT_YET = {}


def main() -> int:
    props = [json.loads(l) for l in open(os.path.join(HERE, "properties.jsonl"))]
    checks = []
    na = []
    for p in props:
        pid = p["id"]
        if pid in CHECKS:
            tech, text, note, ref = CHECKS[pid]
            checks.append({
                "property_id": pid,
                "quick_cmd": "./check %s --tier quick" % pid,
                "thorough_cmd": "./check %s --tier thorough" % pid,
                "evidence_file": "evidence/%s.json" % pid,
                "replay_cmd_template": "./check %s --replay {path}" % pid,
                "engine": "pv",
                "level_claimed": {"category": "exploration", "text": text, "design_ref": ref},
                "level_note": note,
                "technique": tech,
            })
        else:
            na.append({"property_id": pid, "reason": NOT_YET.get(pid, "check not built yet in this revision (planned, see DESIGN.md section 5); nothing is claimed for it")})
    man = {
        "version": 1,
        "setup_cmd": "./setup.sh",
        "hooks": {
            "guard": "PYDOCTOR_VERIF",
            "enable": "no source hooks are needed: every observation point is reachable from outside (DESIGN.md 2.2); checks import the working tree via PYTHONPATH=$VERIF_REPO (default /repo)",
            "baseline_off_cmd": "cd /repo && /venv/bin/python -m pytest -ra -q -p no:cacheprovider --timeout=900 --continue-on-collection-errors",
            "source_commits": [],
            "add_only": True,
        },
        "engines": [{"name": "pv", "path": "pv/", "serves_properties": sorted(CHECKS),
                     "kind_free_text": "seeded hypothesis strategies / state machines, exhaustive bounded enumerators and atheris targets with explicit oracles; ./check <id> --tier quick|thorough"}],
        "checks": checks,
        "not_applicable": na,
        "notes": "All checks: exit 0 held / exit 1 + VIOLATION line / exit 2 harness error. Known findings: known_findings.json (never written at run time).",
    }
    out = os.path.join(HERE, "MANIFEST.json")
    with open(out, "w") as fh:
        fh.write(json.dumps(man, indent=1) + "\n")
    try:
        import jsonschema
        jsonschema.validate(man, json.load(open("/root/.vp/MANIFEST.schema.json")))
        for c in checks:
            ev = os.path.join(HERE, c["evidence_file"])
            if os.path.exists(ev):
                jsonschema.validate(json.load(open(ev)), json.load(open("/root/.vp/EVIDENCE.schema.json")))
        print("MANIFEST.json valid; %d checks, %d not_applicable" % (len(checks), len(na)))
    except ImportError:
        print("jsonschema not available; wrote without validation")
    return 0


if __name__ == "__main__":
    sys.exit(main())
