#!/bin/bash
# tools/import_seed.sh <worktree> <id>: copies a sub-agent's deliverables (seeded/patch.diff, demo.py, meta.json) from its
# scratch worktree to /verif/seeded/<id>/, then confirms them (tools/confirm_seed.sh).
WT="$1"; ID="$2"; D="/verif/seeded/$ID"
[ -f "$WT/seeded/patch.diff" ] || { echo "no deliverables in $WT"; exit 2; }
mkdir -p "$D"; cp "$WT"/seeded/patch.diff "$WT"/seeded/demo*.py "$WT"/seeded/meta.json "$D"/
/verif/tools/confirm_seed.sh "$ID"
