#!/bin/bash
# Runs the pinned suite (in parallel) and compares with BASELINE.json: prints unexpected failures.
cd "${1:-/repo}" && /venv/bin/python -m pytest -q -p no:cacheprovider -n 12 --timeout=900 --continue-on-collection-errors --junitxml=/tmp/repotests.xml >/tmp/repotests.log 2>&1
tail -1 /tmp/repotests.log
python3 - <<'PY'
import json, xml.etree.ElementTree as ET
b=json.load(open('/root/.vp/BASELINE.json'))
stable=set(b['stable_pass'])
t=ET.parse('/tmp/repotests.xml')
passed=set(); failed=set()
for tc in t.iter('testcase'):
    name=tc.get('classname')+'::'+tc.get('name')
    if any(c.tag in('failure','error') for c in tc): failed.add(name)
    elif any(c.tag=='skipped' for c in tc): pass
    else: passed.add(name)
miss=stable-passed
print('stable tests passing: %d/%d; newly failing: %d'%(len(stable&passed),len(stable),len(miss)))
for m in sorted(miss)[:20]: print('  MISSING/FAILED',m)
PY
