#!/bin/bash
# tools/seedtest.sh <patch.diff> <CHECK> [<CHECK>...]   (env TIER=quick|thorough, VERIF_SEED)
# Applies the patch to a scratch copy of /repo's working tree (outside /repo and /verif), runs the checks against it
# through VERIF_REPO, prints their verdicts and removes the copy.
PATCH="$(realpath "$1")"; shift
HERE="$(cd "$(dirname "${BASH_SOURCE[0]}")/.." && pwd)"
SCR="$(mktemp -d /tmp/pv_seed_XXXXXX)"
cp -r /repo/pydoctor "$SCR/pydoctor"
( cd "$SCR" && patch -p1 -s < "$PATCH" ) || { echo "PATCH-DOES-NOT-APPLY $PATCH"; rm -rf "$SCR"; exit 3; }
rc=0
for c in "$@"; do
  out="$(cd "$HERE" && VERIF_REPO="$SCR" ./check "$c" --tier "${TIER:-quick}" 2>&1)"; code=$?
  echo "== $c exit=$code"; echo "$out" | grep -E "VIOLATION|HARNESS|^C[0-9]+ tier" | cut -c1-220
  echo "$out" | grep -E "^  [A-Za-z0-9:@._-]+: " | cut -c1-260 | head -4
  [ $code -eq 1 ] && rc=1
done
rm -rf "$SCR"
# evidence of scratch runs goes to replays/scratch-evidence (not committed)
exit $rc
