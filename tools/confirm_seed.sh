#!/bin/bash
# tools/confirm_seed.sh <id>: confirms /verif/seeded/<id> in a scratch worktree of /repo (outside /repo and /verif):
#   demo passes on the unchanged tree, fails with the patch, the pinned suite still passes with the patch.
ID="$1"; S="/verif/seeded/$ID"; WT="/tmp/cs_$ID"
git -C /repo worktree remove --force "$WT" >/dev/null 2>&1
git -C /repo worktree add -q --detach "$WT" HEAD || exit 2
mkdir -p "$WT/seeded"; cp "$S"/demo* "$WT/seeded/" 2>/dev/null
cd "$WT"
PYTHONPATH="$WT" PYTHONDONTWRITEBYTECODE=1 /venv/bin/python seeded/demo.py > /tmp/cs_$ID.clean.out 2>&1; c0=$?
git apply "$S/patch.diff" || { echo "patch does not apply"; cd /; git -C /repo worktree remove --force "$WT"; exit 2; }
PYTHONPATH="$WT" PYTHONDONTWRITEBYTECODE=1 /venv/bin/python seeded/demo.py > /tmp/cs_$ID.patched.out 2>&1; c1=$?
t="$(/verif/tools/repotests.sh "$WT" | tail -1)"
cd /; git -C /repo worktree remove --force "$WT"
echo "$ID demo_on_clean=$c0 ($(tail -1 /tmp/cs_$ID.clean.out | cut -c1-60)) demo_with_patch=$c1 tests: $t"
rm -f /tmp/cs_$ID.clean.out /tmp/cs_$ID.patched.out
[ $c0 -eq 0 ] && [ $c1 -ne 0 ] && echo "$t" | grep -q "newly failing: 0"
